"""C03 Calls pass arguments by value into isolated frames and reach the chosen overload."""
from __future__ import annotations

import ast

from ..paths import paths, cond_atoms

from ..model import AnalysisError, AnchorMissing, dotted, last_attr, unparse, walk_no_nested, find_assign, stmt_key
from ..vmmodel import VMModel, VM, IR

TITLE = "call frames: by-value arguments, isolated activations, chosen overload"
LEVEL = "other"
LOWER = "nsl/passes/LowerToIR.py"
TYPES = "nsl/types.py"
ASTF = "nsl/ast/__init__.py"
EXPLANATION = (
    "R03.1 the names holding an activation (argument list, value map, instruction list, block offsets) are bound "
    "once before the interpreter loop and never re-bound inside it (a re-binding in one opcode arm reaches every "
    "other arm through the loop back edge). R03.2 the value map is a fresh container per activation, never stored, "
    "passed on or returned; CALL hands a freshly built list to _Invoke which reaches __Execute in the args position. "
    "R03.3 VECTOR_SET/MATRIX_SET write into a copy; no arm other than STORE_ARRAY/STORE_MEMBER mutates a stored value in place. "
    "R03.4 definition and call site name a function through the same helper, whose mangled form mentions the name and "
    "every argument type. R03.5 the four sites that order arguments enumerate the same mapping in declaration order. "
    "R03.6 the resolved overload is stored where lowering reads it."
)
NOT_DECIDED = (
    "all interleavings of nested/recursive calls as executions; struct and array arguments are passed by reference "
    "in this VM and are outside the property's statement"
)
ASSUMPTIONS = ["Python semantics of name binding: a name assigned in a loop body is visible to later iterations"]
COPY_IDIOMS = {"deepcopy", "copy", "list"}  # copy.deepcopy(x), copy.copy(x), list(x); also x[:] and comprehensions


def is_copy_expr(e) -> bool:
    if isinstance(e, ast.Call) and last_attr(e) in COPY_IDIOMS:
        return True
    if isinstance(e, ast.ListComp):
        return True
    if isinstance(e, ast.Subscript) and isinstance(e.slice, ast.Slice) and e.slice.lower is None and e.slice.upper is None:
        return True
    return False


_LIST_MUTATORS = {"append", "extend", "insert", "pop", "remove", "clear", "sort", "reverse", "update", "setdefault", "popitem"}


def check_arm_aliasing(vm, col, rule, inplace_ok=("STORE_ARRAY", "STORE_MEMBER")):
    """Per opcode arm: an in-place mutation (x[i] = .., x += .., x.append(..) ...) only ever hits a container the arm
    built itself. A name is the arm's own container iff every value assigned to it in the arm is freshly built."""
    key = f"{VM}::ExecutionContext.__Execute"

    def fresh_value(v, fresh_names):
        if isinstance(v, (ast.List, ast.ListComp, ast.Dict, ast.DictComp, ast.Tuple)):
            return True
        if is_copy_expr(v):
            return True
        if isinstance(v, ast.BinOp) and isinstance(v.op, (ast.Add, ast.Mult)):
            return any(fresh_value(x, fresh_names) for x in (v.left, v.right))
        if isinstance(v, ast.Name):
            return v.id in fresh_names
        return False

    def numeric_value(v):
        if isinstance(v, ast.Constant) and isinstance(v.value, (int, float)) and not isinstance(v.value, bool):
            return True
        if isinstance(v, ast.BinOp):
            return numeric_value(v.left) or numeric_value(v.right)
        if isinstance(v, ast.Call) and dotted(v.func) in ("len", "int", "float", "abs", "min", "max"):
            return True
        return False

    def units(body):
        """alternative branches of a top-level if/elif chain or match are analysed separately (they re-use names)"""
        for i, st in enumerate(body):
            branches = []
            if isinstance(st, ast.If) and st.orelse:
                cur = st
                while True:
                    branches.append(cur.body)
                    if len(cur.orelse) == 1 and isinstance(cur.orelse[0], ast.If):
                        cur = cur.orelse[0]
                    else:
                        if cur.orelse:
                            branches.append(cur.orelse)
                        break
            elif isinstance(st, ast.Match):
                branches = [c.body for c in st.cases]
            if branches:
                rest = body[:i] + body[i + 1:]
                return [rest + b for b in branches]
        return [body]

    nmut = 0
    for opc, body_ in sorted(((o, b) for o, a in vm.arms.items() for b in units(a.body)), key=lambda x: x[0]):
        arm = vm.arms[opc]
        holder = ast.Module(body=body_, type_ignores=[])
        assigned = {}
        for n in ast.walk(holder):
            if isinstance(n, ast.Assign):
                for t in n.targets:
                    if isinstance(t, ast.Name):
                        assigned.setdefault(t.id, []).append(n.value)
            elif isinstance(n, ast.AnnAssign) and isinstance(n.target, ast.Name) and n.value is not None:
                assigned.setdefault(n.target.id, []).append(n.value)
            elif isinstance(n, (ast.For, ast.comprehension)):
                for x in ast.walk(n.target):
                    if isinstance(x, ast.Name):
                        assigned.setdefault(x.id, []).append(None)  # element of something: not fresh
            elif isinstance(n, ast.withitem) and n.optional_vars is not None:
                for x in ast.walk(n.optional_vars):
                    if isinstance(x, ast.Name):
                        assigned.setdefault(x.id, []).append(None)
        fresh_names = set()
        for _ in range(3):
            for nm, vals in assigned.items():
                if vals and all(v is not None and fresh_value(v, fresh_names) for v in vals):
                    fresh_names.add(nm)
        numeric = {nm for nm, vals in assigned.items() if vals and all(v is not None and numeric_value(v) for v in vals)}
        muts = []
        for n in ast.walk(holder):
            if isinstance(n, ast.Call) and isinstance(n.func, ast.Attribute) and n.func.attr in _LIST_MUTATORS:
                muts.append((n.func.value, n))
            elif isinstance(n, (ast.Assign, ast.Delete)):
                for t in n.targets:
                    if isinstance(t, ast.Subscript):
                        muts.append((t.value, n))
            elif isinstance(n, ast.AugAssign):
                if isinstance(n.target, ast.Subscript):
                    muts.append((n.target.value, n))
                elif isinstance(n.target, ast.Name) and n.target.id not in numeric and isinstance(n.op, (ast.Add, ast.Mult)):
                    muts.append((n.target, n))
        for recv, n in muts:
            nmut += 1
            txt = unparse(recv)
            root = recv
            while isinstance(root, (ast.Subscript, ast.Attribute)):
                root = root.value
            rn = root.id if isinstance(root, ast.Name) else None
            binds_slot = isinstance(recv, ast.Name) and rn in ("localScope", "args") or (isinstance(recv, ast.Attribute) and "lobalScope" in recv.attr)
            own = isinstance(recv, ast.Name) and rn in fresh_names
            # x[i][j] = v where x is the arm's own container still writes into an element that may be shared
            deep_own = not isinstance(recv, ast.Name) and rn in fresh_names and all(v is not None and isinstance(v, (ast.ListComp, ast.List)) or (v is not None and is_copy_expr(v) and "deepcopy" in unparse(v)) for v in assigned.get(rn, []))
            ok_ = binds_slot or own or deep_own or opc in inplace_ok
            col.check(ok_, rule, f"{key}::{opc} arm mutates `{txt[:40]}`", "a slot of the value map / globals map is (re)bound, or the arm's own freshly built container is filled",
                      f"`{unparse(n)[:70]}` changes `{txt}` in place, and `{txt}` is not a container this arm built itself (it can be a value stored in a variable, a global or the caller's "
                      "argument): every other holder of that value sees the change", VM, n)
    col.floor(rule, "in-place mutations inside opcode arms", nmut, 20)


def run(model, col, tier, share=True):
    vm = VMModel(model)
    ex = vm.execute
    key = f"{VM}::ExecutionContext.__Execute"
    params = [a.arg for a in ex.args.args[1:]]
    # ---- R03.1 ---------------------------------------------------------
    pre_bound = set(params)
    for st in vm.prologue:
        for n in walk_no_nested(st):
            if isinstance(n, ast.Name) and isinstance(n.ctx, ast.Store):
                pre_bound.add(n.id)
    subscripted = set()
    for n in ast.walk(vm.loop):
        if isinstance(n, ast.Subscript) and isinstance(n.value, ast.Name):
            subscripted.add(n.value.id)
    state = sorted(pre_bound & subscripted)
    col.note("R03.1 activation state names", state)
    col.floor("R03.1", "activation-state names (bound before the loop, subscripted inside it)", len(state), 3)
    rebinds = {}
    for n in ast.walk(vm.loop):
        if isinstance(n, ast.Name) and isinstance(n.ctx, ast.Store) and n.id in state:
            rebinds.setdefault(n.id, []).append(n)
    for name in state:
        if name in rebinds:
            n = rebinds[name][0]
            col.bad("R03.1", f"{key}::rebinding of '{name}'",
                    f"'{name}' holds the current activation and is re-bound inside the interpreter loop (line {n.lineno}); "
                    "every instruction executed afterwards in this activation sees the new object "
                    "(after a call returns the caller's parameters are the callee's argument list)", VM, n)
        else:
            col.ok("R03.1", f"{key}::'{name}' bound once", f"'{name}' is bound before the interpreter loop and only subscripted inside it")
    # ---- R03.2 ---------------------------------------------------------
    # locals of an activation are its own objects all the way down: a declaration creates a freshly built instance (= R01.4)
    from . import c01 as _c01_32

    _c01_32.check_new_variable_fresh(col, vm, "R03.2")
    # the value map: the name the constants are registered in / that arms index by instruction.Reference
    stored_in_loop = set()
    for n in ast.walk(vm.loop):
        if isinstance(n, ast.Subscript) and isinstance(n.ctx, ast.Store) and isinstance(n.value, ast.Name):
            stored_in_loop.add(n.value.id)
    scope_names = [nm for nm in state if nm not in params and nm in stored_in_loop]
    col.floor("R03.2", "per-activation value map (written by the opcode arms)", len(scope_names), 1)

    def is_fresh_container(v):
        if isinstance(v, (ast.Dict, ast.DictComp, ast.List, ast.ListComp)):
            return True
        if isinstance(v, ast.Call):
            d = dotted(v.func) or ""
            if d in ("dict", "list", "collections.OrderedDict", "OrderedDict", "copy.copy", "copy.deepcopy"):
                return True
            if isinstance(v.func, ast.Attribute) and v.func.attr == "copy" and not v.args:
                return True
        return False

    for nm in scope_names:
        vals = find_assign(ex, nm)
        fresh = bool(vals) and all(is_fresh_container(v) for v in vals)
        col.check(fresh, "R03.2", f"{key}::'{nm}' fresh", f"'{nm}' = {unparse(vals[0]) if vals else '?'}: a fresh map per activation",
                  f"'{nm}' is bound to {[unparse(v) for v in vals]}: not a container created freshly for this activation, so activations of a function "
                  "(recursion, repeated calls) share one value map", VM, ex)
        escapes = []
        for n in ast.walk(ex):
            if isinstance(n, ast.Call):
                for a in list(n.args) + [k.value for k in n.keywords]:
                    if isinstance(a, ast.Name) and a.id == nm:
                        escapes.append(n)
            elif isinstance(n, ast.Return) and isinstance(n.value, ast.Name) and n.value.id == nm:
                escapes.append(n)
            elif isinstance(n, ast.Assign) and isinstance(n.value, ast.Name) and n.value.id == nm:
                escapes.append(n)
        col.check(not escapes, "R03.2", f"{key}::'{nm}' does not escape", f"'{nm}' is never passed to a call, stored or returned",
                  f"'{nm}' escapes the activation: {unparse(escapes[0]) if escapes else ''}", VM, escapes[0] if escapes else ex)
    # CALL arm
    call = vm.arm("CALL")
    inv = [c for st in call.body for c in ast.walk(st) if isinstance(c, ast.Call) and last_attr(c) in ("_Invoke", "__Execute", "Invoke")]
    col.floor("R03.2", "invocation in the CALL arm", len(inv), 1)
    for c in inv:
        if len(c.args) < 2:
            col.bad("R03.2", f"{key}::CALL arm argument list", f"cannot find the argument list in {unparse(c)}", VM, c)
            continue
        a = c.args[1]
        src = a
        if isinstance(a, ast.Name):
            vals = [v for st in call.body for v in find_assign(ast.Module(body=[st], type_ignores=[]), a.id)]
            src = vals[-1] if vals else None
        fresh = isinstance(src, (ast.ListComp, ast.List)) or (isinstance(src, ast.Call) and dotted(src.func) == "list")
        col.check(fresh, "R03.2", f"{key}::CALL arm passes a fresh list",
                  f"the callee's argument list is built freshly: {unparse(src)[:80]}",
                  f"the callee receives `{unparse(a)}`, not a freshly built list: caller and callee would share one argument list", VM, c)
    for meth in ("_Invoke", "Invoke"):
        m = vm.ec.own_method(meth)
        ex_calls = [c for c in ast.walk(m) if isinstance(c, ast.Call) and last_attr(c) == "__Execute"]
        good = bool(ex_calls)
        for c in ex_calls:
            if len(c.args) != 2:
                good = False
                continue
            a = c.args[1]
            if meth == "_Invoke":
                good &= isinstance(a, ast.Name) and a.id == m.args.args[2].arg
            else:
                vals = find_assign(m, a.id) if isinstance(a, ast.Name) else [a]
                good &= all(isinstance(v, (ast.ListComp, ast.List)) for v in vals) and bool(vals)
        col.check(good, "R03.2", f"{VM}::ExecutionContext.{meth} -> __Execute",
                  "hands the argument list to __Execute in the args position",
                  "does not hand a per-call argument list to __Execute in the args position", VM, m)
    # argument loads/stores index the activation's own list
    for opc in ("LOAD", "STORE"):
        arm = vm.arm(opc)
        hits = [n for st in arm.body for n in ast.walk(st) if isinstance(n, ast.Subscript) and isinstance(n.value, ast.Name)
                and n.value.id == (params[1] if len(params) > 1 else "args")]
        col.check(bool(hits), "R03.2", f"{key}::{opc} arm FUNCTION_ARGUMENT",
                  f"argument access indexes the activation's own '{params[1] if len(params)>1 else 'args'}' list",
                  "argument access does not use the activation's argument list", VM, arm.case)
    # ---- R03.3 ---------------------------------------------------------
    inplace_ok = {"STORE_ARRAY", "STORE_MEMBER"}
    for opc, arm in sorted(vm.arms.items()):
        for st in arm.body:
            for n in ast.walk(st):
                if isinstance(n, ast.Assign):
                    for t in n.targets:
                        if isinstance(t, ast.Subscript) and isinstance(t.value, ast.Subscript):
                            # X[a][b] = v : in-place mutation of a stored value
                            base = t.value.value
                            if opc in inplace_ok:
                                continue
                            col.bad("R03.3", f"{key}::{opc} arm in-place write",
                                    f"`{unparse(t)} = ...` mutates a value stored in `{unparse(base)}` in place; copies and the caller's variables alias it", VM, n)
    check_arm_aliasing(vm, col, "R03.3", inplace_ok)
    for opc in ("VECTOR_SET", "MATRIX_SET"):
        arm = vm.arm(opc)
        writes = []
        for st in arm.body:
            for n in ast.walk(st):
                if isinstance(n, ast.Assign):
                    for t in n.targets:
                        if isinstance(t, ast.Subscript) and isinstance(t.value, ast.Name) and t.value.id not in state:
                            writes.append((t.value.id, n))
        col.floor("R03.3", f"element write in the {opc} arm", len(writes), 1) if False else None
        if not writes:
            # maybe built functionally (comprehension) - accept if result stored to the value map from a comprehension
            comp = [n for st in arm.body for n in ast.walk(st) if isinstance(n, ast.ListComp)]
            col.check(bool(comp), "R03.3", f"{key}::{opc} arm copies", "result is built by a comprehension (fresh list)",
                      "no element write on a copy and no freshly built result found", VM, arm.case)
        for nm, n in writes:
            vals = [v for st in arm.body for v in find_assign(ast.Module(body=[st], type_ignores=[]), nm)]
            good = bool(vals) and all(is_copy_expr(v) for v in vals)
            col.check(good, "R03.3", f"{key}::{opc} arm copies",
                      f"the element is written into a copy: {nm} = {unparse(vals[0]) if vals else '?'}",
                      f"`{unparse(n)}` writes into `{nm}` = {[unparse(v) for v in vals]}, which is not a copy of the stored value: "
                      "every alias of the vector/matrix (a copy made earlier, the caller's variable) changes too", VM, n)
    # ---- R03.4 ---------------------------------------------------------
    lv = model.cls(LOWER, "LowerToIRVisitor")
    vf = lv.own_method("v_Function")
    vc = lv.own_method("v_CallExpression")

    def naming_helper(func, sink_pred):
        """name of the helper whose result flows into the sink's name argument"""
        for n in ast.walk(func):
            if isinstance(n, ast.Call) and sink_pred(n):
                return n
        return None

    def helper_of(func, name_expr):
        if isinstance(name_expr, ast.Name):
            vals = find_assign(func, name_expr.id)
            if len(vals) == 1:
                name_expr = vals[0]
        if isinstance(name_expr, ast.Call):
            return last_attr(name_expr), name_expr
        return None, name_expr

    def_sink = naming_helper(vf, lambda c: last_attr(c) in ("OnEnterFunction", "CreateFunction"))
    call_sink = naming_helper(vc, lambda c: last_attr(c) == "CallInstruction")
    if def_sink is None or call_sink is None:
        raise AnchorMissing(f"{LOWER}: function definition / call instruction construction site not found")
    dh, dexpr = helper_of(vf, def_sink.args[0])
    ci = model.cls(IR, "CallInstruction").own_method("__init__")
    ci_params = [a.arg for a in ci.args.args[1:]]
    fn_pos = next((i for i, p in enumerate(ci_params) if "name" in p.lower() or "function" in p.lower()), 1)
    cname = call_sink.args[fn_pos] if len(call_sink.args) > fn_pos else None
    ch, cexpr = helper_of(vc, cname)
    col.check(dh is not None and dh == ch, "R03.4", f"{LOWER}::definition and call use one naming helper",
              f"v_Function and v_CallExpression both name the function through {dh}()",
              f"definition is named by `{unparse(dexpr)}`, call by `{unparse(cexpr)}`: a call can name a function that does not exist or another overload", LOWER, vc)
    # the call names the function object the type checker resolved (R03.6)
    if isinstance(cexpr, ast.Call) and cexpr.args:
        col.check("GetFunction" in unparse(cexpr.args[0]), "R03.6", f"{LOWER}::v_CallExpression reads the resolved overload",
                  f"callee name derives from {unparse(cexpr.args[0])}", f"callee name derives from {unparse(cexpr.args[0])}, not from the resolved function", LOWER, vc)
    if isinstance(dexpr, ast.Call) and dexpr.args:
        arg = dexpr.args[0]
        if isinstance(arg, ast.Name):
            v = find_assign(vf, arg.id)
            arg = v[0] if v else arg
        col.check("GetType" in unparse(arg), "R03.4", f"{LOWER}::v_Function names its own type",
                  f"definition name derives from {unparse(arg)}", None, LOWER, vf)
    if dh:
        helper = lv.find_method(dh) or lv.find_method("_LowerToIRVisitor" + dh)
        if helper is None:
            raise AnchorMissing(f"{LOWER}::LowerToIRVisitor.{dh}")
        h = helper[1]
        rets = [r for r in ast.walk(h) if isinstance(r, ast.Return) and r.value is not None]
        texts = [unparse(r.value) for r in rets]
        has_mangled = any("GetMangledName" in t for t in texts)
        col.check(has_mangled, "R03.4", f"{LOWER}::{dh} returns the mangled name for non-exported functions",
                  f"returns {texts}", f"never returns GetMangledName(): overloads share one IR name ({texts})", LOWER, h)
        # exported branch guarded by .exported
        raw = [r for r in rets if "GetMangledName" not in unparse(r.value)]
        for r in raw:
            guard_ok = False
            for n in ast.walk(h):
                if isinstance(n, ast.If) and any(r is x for x in ast.walk(n)):
                    in_body = any(r is x for s in n.body for x in ast.walk(s))
                    t = unparse(n.test)
                    if ("exported" in t.lower()) and (in_body != t.strip().startswith("not ")):
                        guard_ok = True
            if not guard_ok:
                # guard clause form: every path that ends in this return has established `<x>.exported` as true
                ends = [cond_atoms(evs) for evs, status in paths(h.body) if status == "return" and evs[-1].node is r]
                guard_ok = bool(ends) and all(any("exported" in k.lower() and v is True for k, v in a.items()) for a in ends)
            col.check(guard_ok, "R03.4", f"{LOWER}::{dh} raw name only for exported functions",
                      "the raw name is returned only under the `exported` test", f"`return {unparse(r.value)}` is not guarded by the exported flag", LOWER, r)
    gm = model.cls(TYPES, "Function").own_method("GetMangledName")
    txt = unparse(gm)
    uses_name = any(isinstance(n, ast.Attribute) and n.attr == "name" for n in ast.walk(gm))
    iter_all = None
    for n in ast.walk(gm):
        if isinstance(n, (ast.ListComp, ast.GeneratorExp)):
            it = n.generators[0].iter
            iter_all = unparse(it)
        elif isinstance(n, ast.Call) and isinstance(n.func, ast.Name) and n.func.id == "map" and len(n.args) == 2 and isinstance(n.args[0], ast.Name) and n.args[0].id in ("str", "repr"):
            iter_all = unparse(n.args[1])  # map(str, <types>) is the same enumeration
    col.check(uses_name, "R03.4", f"{TYPES}::Function.GetMangledName mentions the name", "mangled name contains self.name", None, TYPES, gm)
    col.check(iter_all is not None and "argumentTypes" in iter_all and iter_all.endswith(".values()") and "[" not in iter_all and not any(
        isinstance(n, ast.Subscript) and isinstance(n.slice, ast.Slice) for n in ast.walk(gm)), "R03.4",
        f"{TYPES}::Function.GetMangledName mentions every argument type",
        f"mangled name joins str() of all of {iter_all}", f"mangled name does not enumerate all argument *types* (it iterates `{iter_all}`; the types are the mapping's values): overloads that differ only in a parameter type share one IR name and the last definition wins", TYPES, gm)
    strs = [n for n in ast.walk(gm) if isinstance(n, ast.Call) and dotted(n.func) in ("str", "repr")]
    col.check(bool(strs) or "{" in txt, "R03.4", f"{TYPES}::Function.GetMangledName formats types", "argument types are formatted by str()", None, TYPES, gm)
    # CreateFunction must not silently replace (it does `self.__functions[name] = f`): relies on unique names,
    # which the exported-name validator + mangling give; recorded as info
    # ---- R03.5 ---------------------------------------------------------
    def iter_exprs(func):
        out = []
        for n in ast.walk(func):
            if isinstance(n, (ast.ListComp, ast.DictComp, ast.GeneratorExp, ast.SetComp)):
                out += [g.iter for g in n.generators]
            elif isinstance(n, ast.For):
                out.append(n.iter)
        return out

    def ordered_enum(func, want_sub, where, file):
        its = [unparse(i) for i in iter_exprs(func)]
        hit = [t for t in its if want_sub in t]
        bad = [t for t in hit if any(w in t for w in ("sorted(", "reversed(", "set(", "[::-1]"))]
        col.check(bool(hit) and not bad, "R03.5", where,
                  f"enumerates {hit[0] if hit else want_sub} in declaration order",
                  f"does not enumerate `{want_sub}` in declaration order (iterates {its})", file, func)

    rw = model.cls("nsl/passes/RewriteFunctionArgAccess.py", "RewriteFunctionArgAccessVisitor")
    ordered_enum(rw.own_method("v_Function"), "Type.Arguments", "nsl/passes/RewriteFunctionArgAccess.py::v_Function name->index map", "nsl/passes/RewriteFunctionArgAccess.py")
    rwf = rw.own_method("v_Function")
    enum_ok = any(isinstance(n, ast.Call) and dotted(n.func) == "enumerate" and len(n.args) == 1 for n in ast.walk(rwf))
    col.check(enum_ok, "R03.5", "nsl/passes/RewriteFunctionArgAccess.py::v_Function indices start at 0",
              "indices come from enumerate(...) starting at 0", "argument indices do not come from a plain enumerate()", "nsl/passes/RewriteFunctionArgAccess.py", rwf)
    rwv = rw.own_method("v_VariableAccessInstruction")
    wv = [c for c in ast.walk(rwv) if isinstance(c, ast.Call) and last_attr(c) == "WithVariable"]
    from ..sem import local_env as _le35, rtext as _rt35

    okv = bool(wv) and all("Variable" in _rt35(c.args[0], _le35(rwv, allow_impure=True)) for c in wv if c.args)
    guard = [n for n in ast.walk(rwv) if isinstance(n, ast.If) and "FUNCTION_ARGUMENT" in unparse(n.test)]
    col.check(okv and bool(guard), "R03.5", "nsl/passes/RewriteFunctionArgAccess.py::v_VariableAccessInstruction",
              "argument accesses (and only those) are re-addressed by mapping[vai.Variable]",
              "argument accesses are not rewritten through the name->index map under the FUNCTION_ARGUMENT test", "nsl/passes/RewriteFunctionArgAccess.py", rwv)
    ordered_enum(vm.ec.own_method("Invoke"), "Type.Arguments", f"{VM}::ExecutionContext.Invoke keyword->positional list", VM)
    clt = model.func(LOWER, "_CreateLinearIRType")
    ordered_enum(clt, "GetArgumentTypes().items()", f"{LOWER}::_CreateLinearIRType function arguments", LOWER)
    od = [n for n in ast.walk(clt) if isinstance(n, ast.Call) and last_attr(n) in ("OrderedDict", "dict") and n.args
          and "GetArgumentTypes" in unparse(n.args[0])]
    if not od:
        # the same mapping filled by a loop: d = OrderedDict() / {} ; for k, t in ...items(): d[k] = ...
        for lp_ in [n for n in ast.walk(clt) if isinstance(n, ast.For) and "GetArgumentTypes" in unparse(n.iter)]:
            kname = lp_.target.elts[0].id if isinstance(lp_.target, ast.Tuple) and lp_.target.elts and isinstance(lp_.target.elts[0], ast.Name) else None
            for st_ in lp_.body:
                if isinstance(st_, ast.Assign) and isinstance(st_.targets[0], ast.Subscript) and isinstance(st_.targets[0].value, ast.Name) and unparse(st_.targets[0].slice) == kname:
                    src_ = find_assign(clt, st_.targets[0].value.id)
                    if src_ and all(isinstance(v_, ast.Dict) or (isinstance(v_, ast.Call) and last_attr(v_) in ("OrderedDict", "dict") and not v_.args) for v_ in src_):
                        od = [lp_]
    col.check(bool(od), "R03.5", f"{LOWER}::_CreateLinearIRType keeps an ordered mapping", "arguments are collected into an (ordered) dict", None, LOWER, clt)
    aic = model.cls("nsl/passes/AddImplicitCasts.py", "AddImplicitCastVisitor").own_method("v_CallExpression")
    z = [n for n in ast.walk(aic) if isinstance(n, ast.Call) and dotted(n.func) == "zip"]
    okz = False
    for c in z:
        if len(c.args) == 2:
            a0, a1 = c.args
            t1 = unparse(a1)
            if isinstance(a1, ast.Name):
                v = find_assign(aic, a1.id)
                t1 = unparse(v[0]) if v else t1
            okz |= "GetArguments" in unparse(a0) and "GetArgumentTypes().values()" in t1
    col.check(okz, "R03.5", "nsl/passes/AddImplicitCasts.py::v_CallExpression pairs arguments with parameter types",
              "zip(call arguments, function.GetArgumentTypes().values())", "call arguments are not zipped with the parameter types in order", "nsl/passes/AddImplicitCasts.py", aic)
    # ... and the converted arguments replace the call's arguments (binding converts each argument to its parameter's type)
    lists_ = {unparse(c.func.value) for c in ast.walk(aic) if isinstance(c, ast.Call) and last_attr(c) == "append" and isinstance(c.func, ast.Attribute)}
    inst_ = [c for c in ast.walk(aic) if isinstance(c, ast.Call) and last_attr(c) == "SetArguments" and c.args and unparse(c.args[0]) in lists_]
    col.check(bool(inst_), "R03.5", "nsl/passes/AddImplicitCasts.py::v_CallExpression installs the converted arguments", "node.SetArguments(<rebuilt list>)",
              "the list of converted arguments is never installed: an argument keeps its own type (a float reaches an int parameter unconverted)", "nsl/passes/AddImplicitCasts.py", aic)
    # ... wherever the call sits: the cast pass reaches every expression (a call nested in another call's argument, in a constructor or
    # in an index expression gets its conversions too)
    from ..astcover import check_handler_coverage
    from ..dispatch import Dispatch as _Dispatch

    ncov = check_handler_coverage(model, _Dispatch(model), col, "R03.5", model.cls("nsl/passes/AddImplicitCasts.py", "AddImplicitCastVisitor"), "nsl/passes/AddImplicitCasts.py",
                                  "expressions below it never get their implicit conversions - `h(g(2.5))` passes 2.5 to g's int parameter while `g(2.5)` alone passes 2")
    col.floor("R03.5", "explicit handlers of the cast pass", ncov, 4)
    # an argument is converted exactly when its (component) type differs from the parameter's - int -> uint included: the VM's
    # and the wasm back end's conversions are not the identity there (abs / wrap), and the callee is compiled for the parameter type
    import copy as _copy35
    from ..sem import inline_pure_calls as _ipc35, local_env as _le35c, rtext as _rt35c
    from ..paths import calls_on_path as _cop35

    aic = model.cls("nsl/passes/AddImplicitCasts.py", "AddImplicitCastVisitor")
    vce0 = aic.own_method("v_CallExpression")
    vce = _copy35.deepcopy(vce0)
    for n_ in ast.walk(vce):
        if isinstance(n_, ast.If):
            n_.test = _ipc35(aic, n_.test, vce.args.args[0].arg)
    env35 = _le35c(vce, allow_impure=True)
    zl = [l for l in ast.walk(vce) if isinstance(l, ast.For) and isinstance(l.iter, ast.Call) and dotted(l.iter.func) == "zip" and isinstance(l.target, ast.Tuple) and len(l.target.elts) == 2]
    col.floor("R03.5", "argument/parameter loops in the cast pass's call handler", len(zl), 1)
    for lp in zl[:1]:
        an, en = unparse(lp.target.elts[0]), unparse(lp.target.elts[1])
        eqk = (f"{an}.GetType().GetComponentType() == {en}.GetComponentType()", f"{en}.GetComponentType() == {an}.GetType().GetComponentType()",
               f"{an}.GetType() == {en}", f"{en} == {an}.GetType()")
        why35 = None
        seen_c = seen_k = False
        for evs, status in paths(lp.body, loop_iters=(1,)):
            a = cond_atoms(evs, env35)
            eq = next((a[k] for k in eqk if k in a), None)
            for c in _cop35(evs):
                if last_attr(c) == "append" and c.args:
                    v = c.args[0]
                    v = env35.get(v.id, v) if isinstance(v, ast.Name) else v
                    if isinstance(v, ast.Call) and last_attr(v) == "CastExpression":
                        seen_c = True
                        if eq is not False:
                            why35 = why35 or f"a conversion is inserted under {[(k[:50], x) for k, x in a.items()][:2]}, not under `argument type != parameter type`"
                    elif unparse(v) == an:
                        seen_k = True
                        if eq is not True:
                            why35 = why35 or f"an argument is passed unconverted under {[(k[:60], x) for k, x in a.items()][:2]}, which does not establish that its type equals the parameter's"
        if not (seen_c and seen_k):
            why35 = why35 or f"conversion inserted: {seen_c}, argument kept: {seen_k}"
        col.check(why35 is None, "R03.5", "nsl/passes/AddImplicitCasts.py::v_CallExpression cast condition", "an argument is converted exactly when its component type differs from the parameter's",
                  f"{why35}: some arguments reach the callee with another type than its parameter (an int handed to a uint parameter is never converted)", "nsl/passes/AddImplicitCasts.py", vce0)
    # types.Function.Resolve fills __argumentTypes in declaration order
    res = model.cls(TYPES, "Function").own_method("Resolve")
    ordered_enum(res, "self.arguments", f"{TYPES}::Function.Resolve argument types", TYPES)
    # ... and one entry per declared parameter (named or not): the table is also the positional signature
    loops_ = [n for n in ast.walk(res) if isinstance(n, ast.For) and "self.arguments" in unparse(n.iter)]
    per_iter = bool(loops_)
    for lp in loops_[:1]:
        for evs_, st_ in paths(lp.body, loop_iters=(1,)):
            if st_ in ("raise",):
                continue
            stores = [e for e in evs_ if e.kind == "stmt" and isinstance(e.node, ast.Assign) and isinstance(e.node.targets[0], ast.Subscript)
                      and "argumentTypes" in unparse(e.node.targets[0].value)]
            if len(stores) != 1 or st_ in ("continue", "break") and not stores:
                per_iter = False
    col.check(per_iter, "R03.5", f"{TYPES}::Function.Resolve one entry per parameter", "every declared parameter (named or unnamed) adds exactly one entry to the parameter table",
              "a declared parameter can be skipped when the parameter table is filled: the table is the positional signature, so every later parameter is numbered one too low and reads its neighbour's argument", TYPES, res)
    # ---- R03.6 ---------------------------------------------------------
    ce = model.cls(ASTF, "CallExpression")
    rt = ce.own_method("ResolveType")
    st = [n for n in ast.walk(rt) if isinstance(n, ast.Assign) and isinstance(n.value, ast.Call) and last_attr(n.value) in ("ResolveFunction", "FindFunction")]
    tgt = unparse(st[0].targets[0]) if st else None
    gf = ce.own_method("GetFunction")
    gret = [unparse(r.value) for r in ast.walk(gf) if isinstance(r, ast.Return)]
    col.check(tgt is not None and gret == [tgt], "R03.6", f"{ASTF}::CallExpression.ResolveType/GetFunction",
              f"resolution result stored in {tgt}, which GetFunction returns", f"resolution result stored in {tgt} but GetFunction returns {gret}", ASTF, rt)
    if st:
        call = st[0].value
        from ..sem import local_env as _le, rtext as _rt

        rt_env = _le(rt)
        argt = [_rt(a, rt_env) for a in call.args]
        col.check(any("GetType" in a and ("GetArguments" in a or "self.children" in a) for a in argt), "R03.6", f"{ASTF}::CallExpression.ResolveType argument types",
                  "resolution is driven by the types of the call's arguments in order", f"resolution arguments are {argt}", ASTF, rt)
    # ---- R03.7 ---------------------------------------------------------
    # the callee that runs is the one selected by the static argument types (= R10.1-R10.4), and a parameter/local never shares
    # its name with a global (= R12.1; lowering looks names up globals first, so such a parameter would be lowered to global accesses)
    if share:
        from ..report import Collector
        from . import c10, c12

        for mod, pid, rules in ((c10, "C10", ("R10.1", "R10.2", "R10.3", "R10.4")), (c12, "C12", ("R12.1", "R12.4"))):
            sub = Collector(pid)
            mod.run(model, sub, "quick")
            for ob in sub.obligations:
                if ob.rule in rules:
                    ob.detail = f"[{ob.rule}] " + (ob.detail or "") if hasattr(ob, "detail") else None
                    ob.rule = "R03.7"
                    col.obligations.append(ob)
        # the function that a call names is the one the linker put in the program: its table is merged with a duplicate test
        # (= R16.3/R16.4); and the operands a call carries are rewired like every other operand when a producer is replaced
        # (= R02.1, CallInstruction rows)
        from . import c16, c02

        sub = Collector("C16")
        c16.run(model, sub, "quick")
        for ob in sub.obligations:
            if ob.rule in ("R16.3", "R16.4") and "Linker" in ob.construct:
                ob.detail = f"[{ob.rule}] " + (ob.detail or "")
                ob.rule = "R03.7"
                col.obligations.append(ob)
        sub = Collector("C02")
        c02.check_operand_protocol(model, sub, "R02.1")
        for ob in sub.obligations:
            if "CallInstruction" in ob.construct:
                ob.detail = f"[{ob.rule}] " + (ob.detail or "")
                ob.rule = "R03.7"
                col.obligations.append(ob)
        # an activation leaves nothing behind on the execution context: whether (and how) a call runs does not depend on the
        # calls made before it (= R15.1 on the context's own fields; R15.5 the argument list is built per call)
        from . import c15

        sub = Collector("C15")
        c15.run(model, sub, "quick")
        n15 = 0
        for ob in sub.obligations:
            if (ob.rule == "R15.1" and "ExecutionContext" in ob.construct and ("sets attribute" in ob.construct or "mutates self" in ob.construct)) \
                    or (ob.rule == "R15.5" and "fresh argument list" in ob.construct):
                ob.detail = f"[{ob.rule}] " + (ob.detail or "")
                ob.rule = "R03.2"
                col.obligations.append(ob)
                n15 += 1
        col.floor("R03.2", "context-state obligations shared with C15", n15, 1)
