"""C06 The WebAssembly backend agrees with the VM or refuses."""
from __future__ import annotations

import ast

from .. import oracles
from ..dispatch import Dispatch
from ..miniev import CannotEval, ev
from ..model import AnalysisError, AnchorMissing, EnumRef, dotted, find_assign, last_attr, unparse
from ..paths import paths, calls_on_path
from ..pipeline import Pipeline
from ..vmmodel import VMModel

TITLE = "wasm backend: no silent drop, handler totality, opcode table chain, operand typing, local indexing"
LEVEL = "other"
GEN = "nsl/passes/GenerateWasm.py"
WA = "nsl/WebAssembly.py"
IR = "nsl/LinearIR.py"
EXPLANATION = (
    "R06.1 every IR instruction class lowering can construct resolves, in GenerateWasmVisitor, to an explicit handler or to a "
    "default that raises (dispatch matrix); R06.2 every handler path either emits code or raises - a path that returns "
    "without emitting drops the instruction (conditions double-tested are one boolean symbol; implied atoms are propagated); "
    "R06.3 table chain IR opcode -> operator stem -> mnemonic -> byte: each opCodeMap row against the operator table, the "
    "mnemonic the f-string builds for (type, opcode, signedness) against the mnemonic WebAssembly prescribes (a mnemonic that "
    "is not a key of `opcodes` is a refusal and allowed), every `opcodes` row against the WebAssembly 1.0 opcode table; "
    "R06.4 the operator's type prefix/signedness comes from the operands for comparisons and from the result otherwise; "
    "R06.5 parameters are locals 0..argc-1 (needs the unconditional RewriteFunctionArgAccess IR pass), every other value is "
    "argc + AddLocal(...), and every local.get/local.set index flows from that map; R06.6 registration (= R07.3)."
)
NOT_DECIDED = "numeric agreement of the two engines on all inputs (a run-time relation)"
ASSUMPTIONS = ["WebAssembly 1.0 numeric instruction semantics for the mnemonics named in nslsa/oracles.py"]


def fold_dict_in(model, func, name):
    for v in find_assign(func, name):
        if isinstance(v, ast.Dict):
            return model.fold(v), v
    return None, None


_SHARE = [True]


def run(model, col, tier, share=True):
    _SHARE[0] = share
    D = Dispatch(model)
    pipe = Pipeline(model)
    gv = model.cls(GEN, "GenerateWasmVisitor")
    col.check(not D.overrides_generic(gv), "R06.1", f"{GEN}::GenerateWasmVisitor uses the generic dispatch", "v_Generic not overridden", None, GEN, gv.node)
    # ---------------- R06.1 ------------------------------------------------------
    classes = D.ir_instruction_classes()
    # constructible: classes constructed somewhere in lowering or IR passes
    constructed = set()
    for rel in model.files:
        if not rel.startswith("nsl/"):
            continue
        for n in ast.walk(model.files[rel].tree):
            if isinstance(n, ast.Call):
                ci = model.resolve_class_expr(rel, n.func)
                if ci is not None and ci in classes:
                    constructed.add(ci.name)
    col.note("IR instruction classes", {"all": [c.name for c in classes], "constructed": sorted(constructed)})
    col.floor("R06.1", "constructible IR instruction classes", len(constructed), 12)
    dflt = gv.find_method("v_Default")
    dflt_raises_for_instr = False
    if dflt is not None:
        f = dflt[1]
        for evs, status in paths(f.body):
            if status == "raise":
                from ..paths import cond_atoms

                atoms = {k: v for k, v in cond_atoms(evs).items() if " and " not in k and " or " not in k and not k.endswith(" is None")}
                # the refusal may depend on nothing but `obj` being an instruction
                if all(k.startswith("isinstance(") and k.endswith("Instruction)") and v for k, v in atoms.items()):
                    dflt_raises_for_instr = True
    handled = {}
    for ci in classes:
        if ci.name not in constructed:
            continue
        kind, owner, h, base = D.resolve(gv, ci)
        if kind == "explicit":
            handled[ci.name] = h.name
            col.ok("R06.1", f"{GEN}::handler for {ci.name}", f"explicit handler {h.name}")
        else:
            col.check(dflt_raises_for_instr, "R06.1", f"{GEN}::handler for {ci.name}",
                      f"no handler; the default handler ({owner.name}.v_Default) refuses instructions with an error",
                      f"{ci.name} has no handler and falls to {owner.name}.v_Default, which traverses/returns without emitting: the instruction silently disappears from the generated code", GEN, gv.node)
    # the generator visits every instruction of every block
    vf = gv.own_method("v_Function")
    loops = [n for n in ast.walk(vf) if isinstance(n, ast.For) and "Instructions" in unparse(n.iter)]
    visits = [lp for lp in loops if any(isinstance(c, ast.Call) and last_attr(c) in ("v_Visit", "v_Generic") for c in ast.walk(lp))]
    outer = [n for n in ast.walk(vf) if isinstance(n, ast.For) and "BasicBlocks" in unparse(n.iter) and any(v in list(ast.walk(n)) for v in visits)]
    col.check(bool(visits) and bool(outer) and not any(isinstance(x, (ast.If, ast.Break, ast.Continue)) for lp in visits for x in ast.walk(lp)), "R06.1",
              f"{GEN}::v_Function visits every instruction", "every instruction of every basic block is dispatched", "not every instruction of every block is dispatched to a handler", GEN, vf)
    # ---------------- R06.2 ------------------------------------------------------
    for hname in sorted(set(handled.values())):
        h = gv.own_method(hname)
        silent = []
        total = 0
        for evs, status in paths(h.body):
            total += 1
            if status == "raise":
                continue
            emits = [c for c in calls_on_path(evs) if last_attr(c) == "AddInstruction"]
            asserts_only = False
            if not emits:
                conds = [(" ".join(unparse(e.node).split()), e.val) for e in evs if e.kind == "cond"]
                silent.append(conds)
        col.check(not silent, "R06.2", f"{GEN}::{hname} emits or refuses on every path",
                  f"all {total} paths emit wasm instructions or raise",
                  f"{len(silent)} of {total} paths return without emitting anything and without raising, e.g. under {silent[0] if silent else ''}: that case of the instruction is silently dropped", GEN, h)
    # variable access: VM discriminators Scope x Store must be covered or refused
    vah = gv.find_method("v_VariableAccessInstruction")
    if vah is not None:
        h = vah[1]
        txt = unparse(h)
        scopes = model.enum_members(IR, "VariableAccessScope")
        mentions_store = ".Store" in txt
        mentions_scope = ".Scope" in txt
        col.check(mentions_store and mentions_scope, "R06.2", f"{GEN}::v_VariableAccessInstruction discriminators",
                  "the handler looks at both discriminators the VM uses (Scope and load/store)",
                  f"the handler ignores {'Store ' if not mentions_store else ''}{'Scope' if not mentions_scope else ''}: loads and stores / scopes are translated alike", GEN, h)
    # ---------------- R06.3 ------------------------------------------------------
    from ..sem import expand_helpers as _eh063

    vb = gv.own_method("v_BinaryInstruction")
    if vb is not None:
        # read with private / static helpers of the generator in place (`__GetOperationType(bi)`, `__GetBinaryOpCodeName(..)`)
        vb = _eh063(model, gv, vb, skip=("v_", "__PushValueOntoStack", "_GenerateWasmVisitor__PushValueOntoStack"))
        from ..sem import expand_module_helpers as _xmh063

        vb = _xmh063(model, GEN, vb, skip=("v_", "_GenerateConstant", "GetPass"))  # module-level helpers (`_OperandTypeOf(bi)`) as well
    # the operator table: the dict display (local, class-level or module-level) whose keys are IR opcodes and whose values are strings
    opmap = opnode = None
    mapname = None
    cands = [(n.targets[0].id, n.value) for n in ast.walk(vb) if isinstance(n, ast.Assign) and isinstance(n.targets[0], ast.Name) and isinstance(n.value, ast.Dict)]
    cands += [(k, v) for k, v in model.file(GEN).assigns.items() if isinstance(v, ast.Dict)] + [(k, v) for k, v in gv.class_attrs.items() if isinstance(v, ast.Dict)]
    for nm_, d_ in cands:
        if d_.keys and all(k is not None and "OpCode." in unparse(k) for k in d_.keys) and all(isinstance(v, ast.Constant) and isinstance(v.value, str) for v in d_.values):
            opmap, opnode, mapname = model.fold(d_), d_, nm_
            break
    if opmap is None:
        raise AnchorMissing(f"{GEN}::v_BinaryInstruction: opCodeMap not found")
    opcodes = model.fold(model.module_assign(WA, "opcodes"))
    for k, byte in sorted(opcodes.items()):
        want = oracles.WASM_OPCODES.get(k)
        col.check(want == byte, "R06.3", f"{WA}::opcodes[{k!r}]", hex(byte),
                  f"opcodes[{k!r}] = {hex(byte) if isinstance(byte, int) else byte}; WebAssembly 1.0 encodes {k} as {hex(want) if want is not None else 'nothing (unknown mnemonic)'}", WA, model.module_assign(WA, "opcodes"))
    for k, stem in sorted(opmap.items(), key=lambda kv: str(kv[0])):
        mem = k.member if isinstance(k, EnumRef) else str(k)
        want = oracles.WASM_OPSTEM.get(mem)
        if mem == "MOD":
            # wasm's rem_s/rem_u is the *truncated* remainder; it only agrees with the VM if the VM's MOD arm is not Python's floored `%`
            marm = VMModel(model).arm("MOD")
            floored = any(isinstance(x, ast.BinOp) and isinstance(x.op, ast.Mod) for st_ in marm.body for x in ast.walk(st_)) or \
                any(isinstance(x, ast.Call) and (dotted(x.func) or "").endswith("operator.mod") for st_ in marm.body for x in ast.walk(st_))
            col.check(not floored, "R06.3", f"{GEN}::opCodeMap[MOD]", "the VM computes a truncated remainder like wasm `rem`",
                      f"IR opcode MOD is translated with the wasm operator `{stem}` (truncated remainder), but the VM's MOD arm uses Python's floored `%`: for operands of different sign "
                      "(-7 % 3) the VM yields 2 and the wasm module -1; without a matching instruction the translation has to be refused", GEN, opnode)
            continue
        col.check(want == stem, "R06.3", f"{GEN}::opCodeMap[{mem}]", f"{mem} -> {stem}", f"IR opcode {mem} is translated with the wasm operator `{stem}`; it denotes `{want}`", GEN, opnode)
    # mnemonic construction: fold the f-string and the suffix condition over (type, opcode, unsigned)
    # the mnemonic variable is whatever indexes the writer's opcode table
    lk_ = [n for n in ast.walk(vb) if isinstance(n, ast.Subscript) and unparse(n.value).endswith("opcodes") and isinstance(n.slice, ast.Name)]
    mn_ = lk_[0].slice.id if lk_ else "opCode"
    fs = [v for v in find_assign(vb, mn_) if isinstance(v, ast.JoinedStr)]
    from ..sem import local_env as _le63, resolve as _rs63
    import copy as _copy63

    # the condition may be held in a local (`needsSignSuffix = operationType == "i32" and bi.OpCode not in signAgnostic`):
    # tests are read with single-assignment locals in place (the type tag and the signedness flag stay names)
    env63 = {k_: v_ for k_, v_ in _le63(vb, model, GEN, allow_impure=True).items() if k_ not in ("operationType", "unsigned", mn_) and not isinstance(v_, ast.JoinedStr)}
    suffix_if = []
    cands63 = [n for n in ast.walk(vb) if isinstance(n, ast.If) and any(isinstance(x, ast.AugAssign) and isinstance(x.target, ast.Name) and x.target.id == mn_ for s in n.body for x in ast.walk(s))
               and "operationType" in unparse(_rs63(n.test, env63))]
    # the innermost such test is the suffix condition (an enclosing `if <memo miss>:` may mention the type tag through its key)
    for n in cands63:
        if any(m is not n and any(x is m for x in ast.walk(n)) for m in cands63):
            continue
        if True:
            rt_ = _rs63(n.test, env63)
            if "operationType" in unparse(rt_):
                n2 = _copy63.copy(n)
                n2.test = rt_
                suffix_if.append(n2)

    def suffix_of(sif_, uns_):
        """the text appended to the mnemonic inside the suffix branch for a signed / unsigned operation"""
        # the signedness flag: the local(s) the nested tests of the branch read; it must derive from `<type>.Unsigned`
        flags = {x.id for s_ in sif_.body for n_ in ast.walk(s_) if isinstance(n_, (ast.If, ast.IfExp)) for x in ast.walk(n_.test) if isinstance(x, ast.Name)}
        for fl in flags:
            srcs_ = find_assign(vb, fl)
            if not srcs_ or not any("Unsigned" in unparse(v_) for v_ in srcs_):
                raise AnalysisError(f"{GEN}::v_BinaryInstruction: the suffix depends on `{fl}`, which is not derived from a type's Unsigned property")
        senv = {fl: uns_ for fl in flags}

        def run(stmts):
            out_ = ""
            for st_ in stmts:
                if isinstance(st_, ast.AugAssign) and isinstance(st_.target, ast.Name) and st_.target.id == mn_ and isinstance(st_.op, ast.Add):
                    v_ = st_.value
                    if isinstance(v_, ast.IfExp):
                        v_ = v_.body if bool(ev(v_.test, senv)) else v_.orelse
                    if not (isinstance(v_, ast.Constant) and isinstance(v_.value, str)):
                        raise AnalysisError(f"{GEN}::v_BinaryInstruction: suffix `{unparse(st_)}` is not a string constant")
                    out_ += v_.value
                elif isinstance(st_, ast.If):
                    out_ += run(st_.body if bool(ev(st_.test, senv)) else st_.orelse)
                elif isinstance(st_, (ast.Expr, ast.Pass)):
                    continue
                else:
                    raise AnalysisError(f"{GEN}::v_BinaryInstruction: unmodelled statement in the suffix branch `{unparse(st_)[:50]}`")
            return out_
        try:
            return run(sif_.body)
        except CannotEval as e_:
            raise AnalysisError(f"{GEN}::v_BinaryInstruction: suffix condition cannot be folded ({e_})")

    if not fs or not suffix_if:
        raise AnalysisError(f"{GEN}::v_BinaryInstruction: mnemonic construction (f-string + suffix condition) not in the modelled shape")
    sif = suffix_if[0]
    refusals = []
    nm = 0
    for k, stem in opmap.items():
        mem = k.member if isinstance(k, EnumRef) else str(k)
        for ty in ("i32", "f32"):
            for uns in ((False, True) if ty == "i32" else (False,)):
                base = f"{ty}.{stem}"
                env = {"operationType": ty, "bi.OpCode": EnumRef("OpCode." + mem)}

                class Ref(str):
                    pass

                try:
                    cond = ev(sif.test, env, calls={})
                except CannotEval:
                    # fold the set display of enum refs manually
                    sets = [n for n in ast.walk(sif.test) if isinstance(n, ast.Set)]
                    members = {dotted(e).split(".")[-1] for s_ in sets for e in s_.elts}
                    notin = any(isinstance(n, ast.Compare) and isinstance(n.ops[0], ast.NotIn) for n in ast.walk(sif.test))
                    cond = (ty == "i32") and ((mem not in members) if notin else (mem in members))
                built = base + (suffix_of(sif, uns) if cond else "")
                want_stem = oracles.WASM_OPSTEM.get(mem)
                if want_stem is None:
                    continue
                want_m = f"{ty}.{want_stem}" + (("_u" if uns else "_s") if (ty == "i32" and want_stem in oracles.WASM_I32_SIGNED_STEMS) else "")
                nm += 1
                key = f"{GEN}::mnemonic for ({ty}, {mem}, {'unsigned' if uns else 'signed'})"
                if built not in opcodes:
                    refusals.append(built)
                    col.ok("R06.3", key, f"`{built}` is not in the opcode table: refused with KeyError (allowed)")
                else:
                    col.check(built == want_m, "R06.3", key, f"emits {built}", f"emits `{built}` where the operation is `{want_m}`: the engines disagree", GEN, vb)
    col.floor("R06.3", "mnemonic combinations", nm, 10)
    if refusals:
        col.info(f"mnemonics the generator can build that the opcode table refuses: {sorted(set(refusals))}")
    lookup = [n for n in ast.walk(vb) if isinstance(n, ast.Subscript) and unparse(n.value).split(".")[-1] == mapname and isinstance(n.ctx, ast.Load)]
    bip = vb.args.args[1].arg
    col.check(bool(lookup) and all(unparse(l.slice) == f"{bip}.OpCode" for l in lookup), "R06.3", f"{GEN}::v_BinaryInstruction looks its own opcode up", "opCodeMap[bi.OpCode]", f"{[unparse(l) for l in lookup]}", GEN, vb)
    # ---------------- R06.4 ------------------------------------------------------
    tsrc = None
    for n in ast.walk(vb):
        if isinstance(n, ast.If) and "isinstance" in unparse(n.test) and "IntegerType" in unparse(n.test):
            tsrc = n.test.args[0] if isinstance(n.test, ast.Call) else None
            break
    tname = unparse(tsrc) if tsrc is not None else None
    cmp_members = {m for m in opmap if (m.member if isinstance(m, EnumRef) else "").startswith("CMP_")}
    good = False
    detail = f"operation type is derived from `{tname}`"
    if tname and tname != f"{bip}.Type":
        vals = find_assign(vb, tname)
        texts = [unparse(v) for v in vals]
        has_default = f"{bip}.Type" in texts
        has_operand = any("Values[" in t and ".Type" in t for t in texts)
        # the operand assignment must be guarded by a test listing the comparison opcodes
        guard_members = set()
        for n in ast.walk(vb):
            if isinstance(n, ast.If) and any(isinstance(s, ast.Assign) and unparse(s.targets[0]) == tname for s in n.body):
                # (a set of opcodes named by a local or a module-level constant is read in place)
                from ..sem import local_env as _le64, resolve as _rs64

                for s_ in ast.walk(_rs64(n.test, _le64(vb, model, GEN, allow_impure=True))):
                    if isinstance(s_, ast.Attribute) and s_.attr.startswith("CMP_"):
                        guard_members.add(s_.attr)
                if "IsComparison" in unparse(n.test) or ">> 8" in unparse(n.test):
                    guard_members |= {m.member for m in cmp_members}
        good = has_default and has_operand and guard_members >= {m.member for m in cmp_members}
        detail = f"`{tname}` = bi.Type, replaced by the operand type for {sorted(guard_members)}"
    elif tname == f"{bip}.Type":
        good = not cmp_members
    col.check(good, "R06.4", f"{GEN}::v_BinaryInstruction comparison operand type", detail,
              f"{detail}: a comparison's result type is int whatever it compares, so comparing floats emits i32.lt_s over f32 locals (invalid module) and uints compare as signed", GEN, vb)
    flag_names = {x.id for s_ in sif.body for n_ in ast.walk(s_) if isinstance(n_, (ast.If, ast.IfExp)) for x in ast.walk(n_.test) if isinstance(x, ast.Name)}
    uns = [v_ for fl in sorted(flag_names) for v_ in find_assign(vb, fl)]
    # a literal given to the flag in the very block that selects a non-integer prefix (`operationType = "f32"; unsigned =
    # False`) is never looked at: the suffix is only built for the i32 prefix (folded above)
    inert = set()
    for n_ in ast.walk(vb):
        for fld_ in ("body", "orelse"):
            blk = getattr(n_, fld_, None)
            if isinstance(blk, list) and any(isinstance(s_, ast.Assign) and isinstance(s_.value, ast.Constant) and isinstance(s_.value.value, str) and s_.value.value != "i32" for s_ in blk):
                inert |= {id(s_.value) for s_ in blk if isinstance(s_, ast.Assign) and isinstance(s_.targets[0], ast.Name) and s_.targets[0].id in flag_names
                          and isinstance(s_.value, ast.Constant) and isinstance(s_.value.value, bool)}
    uns = [u for u in uns if id(u) not in inert]
    col.check(bool(uns) and all(".Unsigned" in unparse(u) and (tname or f"{bip}.Type") in unparse(u) for u in uns), "R06.4", f"{GEN}::v_BinaryInstruction signedness source",
              "signedness comes from the same type as the operator prefix", f"signedness comes from {[unparse(u) for u in uns]}", GEN, vb)
    # ---------------- R06.5 ------------------------------------------------------
    ap = pipe.ir_passes
    info = pipe.validator_info("RewriteFunctionArgAccess")
    col.check("RewriteFunctionArgAccess" in ap and "flags" not in info, "R06.5", "nsl/Compiler.py::irPasses RewriteFunctionArgAccess unconditional",
              "argument accesses are rewritten to indices on every compilation (not an optimisation pass)",
              "RewriteFunctionArgAccess is missing from irPasses or flagged as optimisation: the wasm generator (and the VM) index arguments by position", "nsl/Compiler.py", pipe.cls.node)
    comp = pipe.compile
    src_lines = [(" ".join(unparse(s).split())) for s in comp.body]
    i_ir = next((i for i, s in enumerate(comp.body) if isinstance(s, ast.For) and "irPasses" in unparse(s)), None)
    i_w = next((i for i, s in enumerate(comp.body) if "GenerateWasm.GetPass" in unparse(s)), None)
    col.check(i_ir is not None and i_w is not None and i_ir < i_w, "R06.5", "nsl/Compiler.py::Compile wasm after IR passes", "wasm generation runs after the IR passes", "wasm generation does not run after the IR passes", "nsl/Compiler.py", comp)
    from ..sem import local_env as _le65, rtext as _rt65

    vf_env = _le65(vf, allow_impure=True)
    mp = [n for n in ast.walk(vf) if isinstance(n, ast.Assign) and isinstance(n.targets[0], ast.Subscript) and "AddLocal" in unparse(n.value)]
    good = False
    offs_txt = None
    if mp and isinstance(mp[0].value, ast.BinOp) and isinstance(mp[0].value.op, ast.Add):
        sides = [mp[0].value.left, mp[0].value.right]
        offs = next((s_ for s_ in sides if "AddLocal" not in unparse(s_)), None)
        offs_txt = _rt65(offs, vf_env) if offs is not None else None
        # the offset is the number of parameters of the (converted) function type
        is_count = offs_txt is not None and offs_txt.startswith("len(") and offs_txt.endswith(".Arguments)") and ("_ConvertFunctionType(" in offs_txt or ".Type" in offs_txt)
        lp65 = next((n for n in ast.walk(vf) if isinstance(n, ast.For) and any(x is mp[0] for x in ast.walk(n))), None)
        key_ok = lp65 is not None and isinstance(lp65.target, ast.Tuple) and unparse(mp[0].targets[0].slice) == unparse(lp65.target.elts[0]) and ".items()" in unparse(lp65.iter)
        good = is_count and key_ok
    col.check(offs_txt is not None and offs_txt.startswith("len(") and offs_txt.endswith(".Arguments)"), "R06.5", f"{GEN}::v_Function argument count", "locals are numbered after the parameters: offset = len(<function type>.Arguments)",
              f"the offset added to AddLocal's index is `{offs_txt}`", GEN, vf)
    col.check(good, "R06.5", f"{GEN}::v_Function local index map", "map[ref] = argCount + AddLocal(...)", "value references are not mapped to argCount + the index AddLocal returns", GEN, vf)
    setm = [c for c in ast.walk(vf) if isinstance(c, ast.Call) and last_attr(c) == "SetReferenceToLocalMap"]
    col.check(bool(setm) and mp and unparse(setm[0].args[0]) == unparse(mp[0].targets[0].value), "R06.5", f"{GEN}::v_Function installs the map", "the context receives this function's map", None, GEN, vf)
    # every local.get/local.set index flows from GetLocalForReference(...) or the argument index
    bad_idx = []
    nidx = 0
    for m in gv.methods.values():
        for c in ast.walk(m):
            if isinstance(c, ast.Call) and last_attr(c) == "Instruction" and c.args and isinstance(c.args[0], ast.Subscript) and isinstance(c.args[0].slice, ast.Constant) \
                    and c.args[0].slice.value in ("local.get", "local.set", "local.tee"):
                nidx += 1
                arg = c.args[1] if len(c.args) > 1 else None
                elts = arg.elts if isinstance(arg, ast.Tuple) else []
                t = unparse(elts[0]) if elts else ""
                if isinstance(elts[0] if elts else None, ast.Name):
                    v = find_assign(m, elts[0].id)
                    t = unparse(v[-1]) if v else t
                nodep6 = m.args.args[1].arg if len(m.args.args) > 1 else "?"
                if not ("GetLocalForReference(" in t and ".Reference" in t) and t != f"{nodep6}.Variable":
                    bad_idx.append((m.name, c.args[0].slice.value, t))
    col.check(not bad_idx and nidx >= 4, "R06.5", f"{GEN}::local indices", f"all {nidx} local.get/local.set indices come from the reference map or the argument index",
              f"local indices not taken from the reference->local map: {bad_idx}", GEN, gv.node)
    glr = model.cls(GEN, "GenerateWasmVisitor.Context").own_method("GetLocalForReference")
    col.check(f"self.__refToLocalMap[{glr.args.args[1].arg}]" in unparse(glr), "R06.5", f"{GEN}::Context.GetLocalForReference", "looks the reference up in the current function's map", None, GEN, glr)
    # push: constants by const, everything else by local.get of its own local
    pv = gv.find_method("__PushValueOntoStack") or gv.find_method("_GenerateWasmVisitor__PushValueOntoStack")
    if pv:
        t = unparse(pv[1])
        vp6 = pv[1].args.args[1].arg
        col.check("ConstantValue" in t and f"_GenerateConstant({vp6})" in t and f"GetLocalForReference({vp6}.Reference)" in t, "R06.5", f"{GEN}::__PushValueOntoStack",
                  "constants are materialised, other values are read from their own local", "operands are not pushed from the constant / from the operand's own local", GEN, pv[1])
    # operand order: for value in bi.Values (in order)
    lp = [n for n in ast.walk(vb) if isinstance(n, ast.For) and f"{bip}.Values" in unparse(n.iter)]
    col.check(bool(lp) and unparse(lp[0].iter) == f"{bip}.Values", "R06.5", f"{GEN}::v_BinaryInstruction operand order", "operands are pushed left then right", "operands are not pushed in (left, right) order", GEN, vb)
    res = [c for c in ast.walk(vb) if isinstance(c, ast.Call) and last_attr(c) == "GetLocalForReference"]
    col.check(any(unparse(c.args[0]) == f"{bip}.Reference" for c in res), "R06.5", f"{GEN}::v_BinaryInstruction result local", "the result is stored in the instruction's own local", None, GEN, vb)
    # ---------------- R06.6 ------------------------------------------------------
    from . import c07
    from ..report import Collector

    sub = Collector("C07")
    if _SHARE[0]:
        c07.run(model, sub, tier)
    for ob in sub.obligations:
        # a function whose locals have other types than the registers they stand for, or whose body is framed wrongly, is an
        # invalid module: it neither agrees with the VM nor was it refused
        if ob.rule in ("R07.3", "R07.2", "R07.4", "R07.6", "R07.9"):  # (R07.6: operand order / stack discipline of the emitted templates)
            ob.detail = f"[{ob.rule}] " + (ob.detail or "")
            ob.rule = "R06.6"
            col.obligations.append(ob)
    # every signedness-dependent opcode (`*_s`) the generator can emit is one of a signed/unsigned pair chosen by a test on
    # the operand type's `Unsigned`: a handler that emits the signed form unconditionally is wrong for every uint with bit 31 set
    gen_fi = model.file(GEN)
    nsig = 0
    for fnode in [n for n in ast.walk(gen_fi.tree) if isinstance(n, ast.FunctionDef)]:
        consts = [c for c in ast.walk(fnode) if isinstance(c, ast.Constant) and isinstance(c.value, str)]
        inner = {id(x) for d_ in ast.walk(fnode) if isinstance(d_, ast.FunctionDef) and d_ is not fnode for x in ast.walk(d_)}
        for c in consts:
            if id(c) in inner or not c.value.endswith("_s"):
                continue
            nsig += 1
            twin = c.value[:-2] + "_u"
            has_twin = any(k.value == twin for k in consts)
            by_sign = any(isinstance(t_, (ast.If, ast.IfExp)) and "nsigned" in unparse(t_.test) for t_ in ast.walk(fnode)) or \
                any("nsigned" in unparse(v_) for n_ in ast.walk(fnode) if isinstance(n_, ast.Assign) for v_ in [n_.value]
                    if any(isinstance(t_, (ast.If, ast.IfExp)) and any(isinstance(x, ast.Name) and x.id in {unparse(tt) for tt in n_.targets} for x in ast.walk(t_.test)) for t_ in ast.walk(fnode)))
            col.check(has_twin and by_sign, "R06.6", f"{GEN}::{fnode.name} `{c.value}` is chosen by signedness", f"`{c.value}` / `{twin}` selected by a test on the type's Unsigned flag",
                      f"`{c.value}` is emitted without its unsigned counterpart `{twin}` being chosen for unsigned operands: the VM treats a uint with bit 31 set as a large positive number, "
                      "the wasm instruction as a negative one", GEN, c)
    col.floor("R06.6", "signed-variant opcode literals in the generator", nsig, 1)
    # ---------------- R06.7 immediates decode to the constant (= R19.1 + R19.4) ----
    from . import c19

    c19.check_signed(model, col, "R06.7")
    c19.check_encoder_shape(model, col, "R06.7")
    c19.check_immediates_kept(model, col, "R06.7")
    # ---------------- R06.8 a memoised translation is keyed by everything it depends on -------
    from .. import memo

    memo.check_file(model, col, "R06.8", GEN)
    memo.check_file(model, col, "R06.8", WA)
    # ---------------- R06.9 the signedness the generator reads is the source type's (= the scalar rows of the type adapter) ----
    from . import c01
    from ..report import Collector as _Col

    sub = _Col("C01")
    c01.run_R01_5(model, sub, VMModel(model))
    for ob in sub.obligations:
        if "_CreateLinearIRType" in ob.construct:
            ob.rule = "R06.9"
            col.obligations.append(ob)
