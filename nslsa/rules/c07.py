"""C07 Every emitted WebAssembly binary is well-formed and valid."""
from __future__ import annotations

import ast

from .. import oracles
from ..dispatch import Dispatch
from ..model import AnalysisError, AnchorMissing, dotted, find_assign, last_attr, unparse, mangle
from ..paths import paths, calls_on_path
from ..wasmmodel import Terms, WA, is_vec, norm

TITLE = "wasm binary: preamble, section order and framing, registration pairing, locals, value types"
LEVEL = "other"
GEN = "nsl/passes/GenerateWasm.py"
EXPLANATION = (
    "Each WriteTo/Encode of nsl/WebAssembly.py is abstractly interpreted into the byte-grammar term it emits and compared "
    "with the WebAssembly 1.0 binary grammar: R07.1 magic, version and strictly ascending section ids in Module.WriteTo; "
    "R07.2 every section emits id, uleb(len(payload)), payload of the same buffer, with the payload term of its section kind "
    "(vec(functype) / vec(typeidx) / vec(table) / vec(limits) / vec(export) / vec(size-prefixed body)), Code.Encode = locals, "
    "instructions, end; R07.3 per function exactly one type entry, one function entry referring to it, one export referring to "
    "the function index and one code body, on every path; R07.4 every path of Code.AddLocal that advances the running index "
    "declares the local (new group or merged into a group of the same type); R07.5 value-type bytes, empty result list for "
    "void; R07.6 handler templates are stack-neutral; R07.7 signed immediates (= R19.1)."
)
NOT_DECIDED = "validity of the instruction stream of an arbitrary function body (needs the body, i.e. a program); non-scalar value types (known finding)"
ASSUMPTIONS = ["WebAssembly 1.0 binary format tables in nslsa/oracles.py"]

SECTION_KIND = {"TypeSection": "type", "ImportSection": "import", "FunctionSection": "function", "TableSection": "table", "MemorySection": "memory",
                "GlobalSection": "global", "ExportSection": "export", "StartSection": "start", "ElementSection": "element", "CodeSection": "code", "DataSection": "data"}


def section_id(model, cls):
    v = cls.class_attrs.get("sectionId")
    return model.fold(v) if v is not None else None


def check_framing(model, col, rule):
    """R07.2 / R19.2: every size field measures exactly the bytes that follow."""
    nsec = 0
    base = model.cls(WA, "Section")
    for cls in model.subclasses(base, strict=True):
        if "WriteTo" not in cls.methods:
            continue
        nsec += 1
        from ..sem import expand_helpers as _xh07

        f = _xh07(model, cls, cls.methods["WriteTo"])
        from ..sem import expand_module_helpers as _xmh07

        f = _xmh07(model, WA, f, skip=("v_", "Write", "Pack"))  # a module-level framing helper (`_WriteSizePrefixed`) read in place
        t = Terms(model, f)
        outp = f.args.args[1].arg
        out = t.out(outp)
        key = f"{WA}::{cls.name}.WriteTo"
        kind = SECTION_KIND.get(cls.name)
        want_id = oracles.WASM_SECTION_IDS.get(kind)
        sid = section_id(model, cls)
        col.check(sid == want_id, rule, key + " section id", f"sectionId = {sid} ({kind})", f"sectionId is {sid}; the {kind} section has id {want_id}", WA, cls.node)
        ok_frame = (len(out) == 3 and out[0][0] == "byte" and out[0][1].endswith("sectionId") and out[1][0] == "leb" and not out[1][2]
                    and out[2][0] == "bytes" and out[1][1] == f"len({out[2][1]})")
        buf = None
        if ok_frame:
            b = t.resolve(out[2][1])  # `payload = contents.getbuffer()` held in a local
            buf = b.split(".")[0]
            ok_frame = buf in t.local_buffers and b in (f"{buf}.getbuffer()", f"{buf}.getvalue()")
        col.check(ok_frame, rule, key + " framing", "emits byte(sectionId), uleb(len(P)), bytes(P) for one payload buffer P",
                  f"section frame is {[(i[0], i[1]) for i in out]}; expected byte(sectionId), uleb(len(P)), bytes(P) with the same buffer P: the size field would not equal the payload length", WA, f)
        if not ok_frame:
            continue
        pay = t.out(buf)
        # payload must be written before the frame (no write to P after its length was taken): statement order
        order_ok = True
        seen_frame = False
        for st in ast.walk(f):
            pass
        lens = [n for n in ast.walk(f) if isinstance(n, ast.Call) and last_attr(n) == "WriteInteger" and f"len({buf}." in norm(n)]
        writes_to_buf = [n for n in ast.walk(f) if isinstance(n, ast.Call) and n.args and isinstance(n.args[0], ast.Name) and n.args[0].id == buf
                         or (isinstance(n, ast.Call) and last_attr(n) == "write" and isinstance(n.func.value, ast.Name) and n.func.value.id == buf)]
        if lens:
            order_ok = all(w.lineno < lens[0].lineno for w in writes_to_buf)
        col.check(order_ok, rule, key + " payload complete before measured", "nothing is written to the payload after its length was taken", "the payload buffer is written after its length was emitted", WA, f)
        guards = t.out("$guard")
        # payload grammar
        v = is_vec(pay, 0)
        if v is None or len(pay) != 2:
            col.bad(rule, key + " payload", f"payload is {[(i[0], i[1]) for i in pay]}; a section payload is vec(item) = uleb(count) followed by the items", WA, f)
            continue
        coll, var, body = v
        col.check(any(g[1] == f"not {coll}" for g in guards), rule, key + " empty section omitted" if cls.name != "TypeSection" else key + " type section",
                  "an empty section is omitted entirely" if cls.name != "TypeSection" else "type section (written even when empty: allowed)",
                  None, WA, f) if (guards or cls.name != "TypeSection") else col.ok(rule, key + " type section", "written even when empty (allowed by the format)")
        b = body
        item_ok = False
        desc = [(i[0], i[1]) for i in b]
        if kind in ("type", "table", "memory", "export"):
            item_ok = len(b) == 1 and b[0] == ("sub", var)
        elif kind == "function":
            item_ok = len(b) == 1 and b[0][0] == "leb" and b[0][1] == var and not b[0][2]
        elif kind == "code":
            # uleb(len(B)) bytes(B) with B = code.Encode()
            if len(b) == 2 and b[0][0] == "leb" and b[1][0] == "bytes" and b[0][1] == f"len({b[1][1]})" and not b[0][2]:
                src = t.resolve(b[1][1])
                item_ok = src == f"{var}.Encode()"
                desc = desc + [("B =", src)]
        col.check(item_ok, rule, key + " items", f"vec({coll}) of {desc}", f"section items are written as {desc}: not the {kind} section's item grammar", WA, f)
    col.floor(rule, "section writers", nsec, 6)
    # item writers
    def term_of(clsname, meth="WriteTo"):
        c = model.cls(WA, clsname)
        f = c.own_method(meth)
        return c, f, Terms(model, f)

    c, f, t = term_of("FunctionType")
    o = t.out(f.args.args[1].arg)
    good = len(o) == 5 and o[0][0] == "byte" and "function" in o[0][1]
    v1 = is_vec(o, 1) if good else None
    v2 = is_vec(o, 3) if good else None
    good = good and v1 is not None and v2 is not None and v1[2] == [("sub", v1[1])] and v2[2] == [("sub", v2[1])]
    if good:
        init = c.own_method("__init__")
        prm = [a.arg for a in init.args.args[1:]]
        fmap = {n.targets[0].attr: n.value.id for n in ast.walk(init) if isinstance(n, ast.Assign) and isinstance(n.value, ast.Name) and isinstance(n.targets[0], ast.Attribute)}
        first = fmap.get(v1[0].split(".")[-1])
        second = fmap.get(v2[0].split(".")[-1])
        good = [first, second] == prm[:2]
    col.check(good, rule, f"{WA}::FunctionType.WriteTo", "0x60 vec(parameter types) vec(result types)",
              f"function type is written as {[(i[0], i[1]) for i in o]}; expected byte(0x60), vec(params), vec(results) in constructor order", WA, f)
    c, f, t = term_of("Export")
    o = t.out(f.args.args[1].arg)
    if len(o) == 4 and o[0][0] == "leb" and o[1][0] == "bytes" and o[0][1] == f"len({o[1][1]})" and not o[0][2] and t.resolve(o[1][1]).startswith("PackString("):
        # WriteString spelled out: uleb(len(b)) bytes(b) with b = PackString(name)
        o = [("name", t.resolve(o[1][1])[len("PackString("):-1])] + list(o[2:])
    good = len(o) == 3 and o[0][0] == "name" and "name" in o[0][1] and o[1][0] == "byte" and "kind" in o[1][1] and o[2][0] == "leb" and "index" in o[2][1] and not o[2][2]
    col.check(good, rule, f"{WA}::Export.WriteTo", "name, byte(kind), uleb(index)", f"export is written as {[(i[0], i[1]) for i in o]}", WA, f)
    c, f, t = term_of("Local")
    o = t.out(f.args.args[1].arg)
    good = len(o) == 2 and o[0][0] == "leb" and "__n" in o[0][1] and not o[0][2] and o[1][0] == "sub" and "valueType" in o[1][1]
    col.check(good, rule, f"{WA}::Local.WriteTo", "uleb(count), value type", f"local group is written as {[(i[0], i[1]) for i in o]}", WA, f)
    c, f, t = term_of("Table")
    o = t.out(f.args.args[1].arg)
    good = len(o) == 3 and o[0][0] == "byte" and "valueType" in o[0][1] and o[1][0] == "byte" and o[1][2] == 0 and o[2][0] == "leb" and "size" in o[2][1]
    col.check(good, rule, f"{WA}::Table.WriteTo", "reftype, limits(0x00, min)", f"table is written as {[(i[0], i[1]) for i in o]}", WA, f)
    c, f, t = term_of("Memory")
    o = t.out(f.args.args[1].arg)
    # limits: (0x01 min max | 0x00 min): flatten the term into the two sequences it can emit
    def flat(items, take_if):
        out_ = []
        for it in items:
            if it[0] == "if":
                out_ += flat(it[2] if take_if else it[3], take_if)
            else:
                out_.append(it)
        return out_

    def limit_seq(take_if):
        seq = []
        for it in flat(o, take_if):
            if it[0] == "byte":
                c = it[2]
                if c is None and " if " in it[1]:
                    # 0x01 if hasMaximum else 0x00
                    parts = it[1].split(" if ")
                    c = int(parts[0], 0) if take_if else int(it[1].split(" else ")[1], 0)
                seq.append(("byte", c))
            elif it[0] == "leb":
                seq.append(("leb", "max" if "max" in it[1] else "min" if "min" in it[1] else it[1]))
        return seq

    good = bool(o) and limit_seq(True) == [("byte", 1), ("leb", "min"), ("leb", "max")] and limit_seq(False) == [("byte", 0), ("leb", "min")]
    col.check(good, rule, f"{WA}::Memory.WriteTo", "limits: 0x01 min max | 0x00 min", f"memory limits are written as {o}", WA, f)
    if "Encode" not in model.cls(WA, "Code").methods:
        col.bad(rule, f"{WA}::Code.Encode", "a function body is no longer encoded into one buffer whose length is written in front of it: the size field is computed apart from the bytes "
                "that follow (a running total, a formula), so the two can disagree and the next body is misframed", WA, model.cls(WA, "Code").node)
        return
    c, f, t = term_of("Code", "Encode")
    bufs = [b for b in t.local_buffers]
    o = t.out(bufs[0]) if bufs else []
    v = is_vec(o, 0)
    good = v is not None and len(o) == 4 and o[2][0] == "each" and o[2][3] == [("sub", o[2][2])] and "instructions" in o[2][1] and o[3][0] == "byte" and o[3][2] == oracles.WASM_END
    good = good and "locals" in v[0] and v[2] == [("sub", v[1])] and t.returns and t.returns[0].startswith(bufs[0] + ".get")
    col.check(good, rule, f"{WA}::Code.Encode", "vec(local groups), instructions, 0x0B (end)",
              f"function body is encoded as {[(i[0], i[1]) for i in o]}; expected vec(locals) instr* end", WA, f)


def run(model, col, tier):
    # ---------------- R07.1 ------------------------------------------------------
    mod = model.cls(WA, "Module")
    wf = mod.own_method("WriteTo")
    t = Terms(model, wf)
    out = t.out(wf.args.args[1].arg)
    lead = [i[2] for i in out if i[0] == "byte"]
    col.check(lead[:4] == oracles.WASM_MAGIC, "R07.1", f"{WA}::Module.WriteTo magic", "\\0asm", f"magic bytes are {lead[:4]}", WA, wf)
    col.check(lead[4:8] == oracles.WASM_VERSION, "R07.1", f"{WA}::Module.WriteTo version", "version 1", f"version bytes are {lead[4:8]}", WA, wf)
    first_sub = next((k for k, i in enumerate(out) if i[0] == "sub"), len(out))
    col.check(all(i[0] == "byte" for i in out[:first_sub]) and first_sub == 8, "R07.1", f"{WA}::Module.WriteTo preamble first", "the 8 preamble bytes precede every section", f"{first_sub} items precede the first section", WA, wf)
    init = mod.own_method("__init__")
    fcls = {}
    for n in ast.walk(init):
        if isinstance(n, ast.Assign) and isinstance(n.targets[0], ast.Attribute) and isinstance(n.value, ast.Call):
            ci = model.resolve_class_expr(WA, n.value.func)
            if ci is not None:
                fcls["self." + n.targets[0].attr] = ci
    ids = []
    for i in out[first_sub:]:
        if i[0] != "sub":
            col.bad("R07.1", f"{WA}::Module.WriteTo sections", f"unexpected item {i} between sections", WA, wf)
            continue
        ci = fcls.get(i[1])
        if ci is None:
            col.bad("R07.1", f"{WA}::Module.WriteTo sections", f"cannot resolve section object {i[1]}", WA, wf)
            continue
        ids.append((ci.name, section_id(model, ci)))
    asc = all(a[1] < b[1] for a, b in zip(ids, ids[1:]))
    col.check(asc and len(ids) >= 6, "R07.1", f"{WA}::Module.WriteTo section order", f"sections are written in strictly ascending id order {ids}",
              f"sections are written in the order {ids}: ids are not strictly ascending", WA, wf)
    written = {n for n, _ in ids}
    for cname in ("TypeSection", "FunctionSection", "ExportSection", "CodeSection", "TableSection"):
        col.check(cname in written, "R07.1", f"{WA}::Module.WriteTo writes {cname}", "section is written", f"{cname} is never written: what was registered in it is missing from the binary", WA, wf)
    # ---------------- R07.2 ------------------------------------------------------
    check_framing(model, col, "R07.2")
    # ---------------- R07.3 ------------------------------------------------------
    gv = model.cls(GEN, "GenerateWasmVisitor")
    gctx = model.cls(GEN, "GenerateWasmVisitor.Context")
    vf = gv.own_method("v_Function")
    for evs, status in paths(vf.body):
        if status == "raise":
            continue
        names = [last_attr(c) for c in calls_on_path(evs)]
        ne, nl = names.count("OnEnterFunction"), names.count("OnLeaveFunction")
        good = ne == 1 and nl == 1 and names.index("OnEnterFunction") < names.index("OnLeaveFunction")
        col.check(good, "R07.3", f"{GEN}::v_Function enter/leave pairing", "OnEnterFunction and OnLeaveFunction are each called once, in that order",
                  f"a path calls OnEnterFunction {ne}x and OnLeaveFunction {nl}x", GEN, vf)
    oe = gctx.own_method("OnEnterFunction")
    ol = gctx.own_method("OnLeaveFunction")
    # an option that every call site sets to the same literal (or leaves at its literal default) is folded: `exported=True`
    from ..sem import constant_params as _cp73

    cpar = _cp73(model, oe)

    def _fold73(t_):
        if isinstance(t_, ast.Name) and t_.id in cpar:
            return bool(cpar[t_.id])
        if isinstance(t_, ast.UnaryOp) and isinstance(t_.op, ast.Not) and isinstance(t_.operand, ast.Name) and t_.operand.id in cpar:
            return not bool(cpar[t_.operand.id])
        return None

    for evs, status in paths(oe.body, fold=_fold73):
        cs = calls_on_path(evs)
        byname = {}
        for c in cs:
            byname.setdefault(last_attr(c), []).append(c)
        cnt = {k: len(byname.get(k, [])) for k in ("AddFunctionType", "AddFunction", "AddExport")}
        good = all(v == 1 for v in cnt.values())
        col.check(good, "R07.3", f"{GEN}::Context.OnEnterFunction registrations",
                  "registers one function type, one function and one export per function",
                  f"per function the module receives {cnt}: every function needs exactly one type entry, one function-section entry and one export "
                  "(a missing AddFunctionType/AddFunction leaves the export pointing at a function that does not exist)", GEN, oe)
        if not good:
            continue
        ty = find_assign(oe, "typeIndex")
        aft = byname["AddFunctionType"][0]
        af = byname["AddFunction"][0]
        ae = byname["AddExport"][0]

        def bound_to(name_expr, call):
            if isinstance(name_expr, ast.Name):
                v = find_assign(oe, name_expr.id)
                return bool(v) and v[-1] is call
            return name_expr is call

        col.check(af.args and bound_to(af.args[0], aft), "R07.3", f"{GEN}::Context.OnEnterFunction function -> type index",
                  "AddFunction receives the index AddFunctionType returned", f"AddFunction receives `{unparse(af.args[0]) if af.args else None}`, not the index of the type just added", GEN, oe)
        ex = ae.args[0] if ae.args else None
        if isinstance(ex, ast.Name):
            # the Export object built into a local first
            v_ex = find_assign(oe, ex.id)
            ex = v_ex[-1] if len(v_ex) == 1 else ex
        idx = ex.args[0] if isinstance(ex, ast.Call) and ex.args else None
        col.check(idx is not None and bound_to(idx, af), "R07.3", f"{GEN}::Context.OnEnterFunction export -> function index",
                  "the export refers to the index AddFunction returned", f"the export index is `{unparse(idx) if idx is not None else None}`, not the index of the function just added", GEN, oe)
        fresh = [n for n in ast.walk(oe) if isinstance(n, ast.Assign) and isinstance(n.targets[0], ast.Attribute) and n.targets[0].attr == "__code" and isinstance(n.value, ast.Call) and last_attr(n.value) == "Code"]
        col.check(bool(fresh), "R07.3", f"{GEN}::Context.OnEnterFunction fresh body", "a fresh Code object per function", "no fresh Code object is created per function", GEN, oe)
    for evs, status in paths(ol.body):
        if status == "raise":
            continue
        cs = [c for c in calls_on_path(evs) if last_attr(c) == "AddCode"]
        col.check(len(cs) == 1 and "__code" in unparse(cs[0]), "R07.3", f"{GEN}::Context.OnLeaveFunction body registration", "the function's body is added to the code section once",
                  f"AddCode is called {len(cs)}x on a path", GEN, ol)
    # Module.Add* forward to the right section and return its slot
    for meth, sec, inner in (("AddFunctionType", "TypeSection", "AddType"), ("AddFunction", "FunctionSection", "AddFunction"), ("AddExport", "ExportSection", "Add"), ("AddCode", "CodeSection", "Add")):
        m = mod.own_method(meth)
        calls_ = [c for c in ast.walk(m) if isinstance(c, ast.Call) and isinstance(c.func, ast.Attribute) and isinstance(c.func.value, ast.Attribute)]
        tgt = fcls.get("self." + calls_[0].func.value.attr) if calls_ else None
        actual0 = (calls_[0].args[0] if calls_[0].args else calls_[0].keywords[0].value if calls_[0].keywords else None) if calls_ else None  # positional or by keyword
        good = bool(calls_) and tgt is not None and tgt.name == sec and calls_[0].func.attr == inner and actual0 is not None and unparse(actual0) == m.args.args[1].arg
        col.check(good, "R07.3", f"{WA}::Module.{meth}", f"forwards to {sec}.{inner}", f"does not forward its argument to {sec}.{inner}", WA, m)
    for cname, meth in (("TypeSection", "AddType"), ("FunctionSection", "AddFunction")):
        m = model.cls(WA, cname).own_method(meth)
        import re as _re7
        from ..sem import alpha as _alpha7

        src = _alpha7(m)
        # v0 = len(self.<table>); self.<table>.append(p0); return v0      (or: append first and return len(..) - 1)
        good = bool(_re7.fullmatch(r"v0 = len\(self\.(\w+)\) self\.\1\.append\(p0\) return v0", src)) or \
            bool(_re7.fullmatch(r"self\.(\w+)\.append\(p0\) return len\(self\.\1\) - 1", src))
        col.check(good, "R07.3", f"{WA}::{cname}.{meth} index", "returns the index the new entry gets (length before append)", "does not return the index of the appended entry", WA, m)
    # ---------------- R07.4 ------------------------------------------------------
    code = model.cls(WA, "Code")
    al = code.own_method("AddLocal")
    lp = al.args.args[1].arg
    np_ = 0
    for evs, status in paths(al.body):
        if status == "raise":
            continue
        np_ += 1
        appended = merged = advanced = False
        for e in evs:
            if e.kind != "stmt":
                continue
            tx = unparse(e.node)
            if "append(" in tx and lp in tx:
                appended = True
            if "SetCount(" in tx and f"{lp}.Count" in tx:
                merged = True
            if isinstance(e.node, ast.AugAssign) and f"{lp}.Count" in tx:
                advanced = True
        conds = [(" ".join(unparse(e.node).split()), e.val) for e in evs if e.kind == "cond"]
        ctext = ", ".join(f"{t}={v}" for t, v in conds)
        declared = appended != merged
        col.check((not advanced) or declared, "R07.4", f"{WA}::Code.AddLocal path [{ctext}]",
                  f"the running index advances and the local is {'appended as a new group' if appended else 'merged into the last group'}",
                  f"on the path [{ctext}] the running local index advances but the local is neither appended as a new group nor merged into the last one: "
                  "later local.get/local.set refer to a local that is not declared", WA, al)
        if merged:
            from ..paths import cond_atoms as _ca07
            from ..sem import local_env as _le07

            atoms07 = _ca07(evs, _le07(al, allow_impure=True))
            same_type = any(".Type == " in k_ and v_ is True for k_, v_ in atoms07.items())
            col.check(same_type, "R07.4", f"{WA}::Code.AddLocal merge only for the same type", "merging happens under a type-equality test", "a local is merged into the previous group without a type-equality test", WA, al)
        if appended:
            sets_last = any(e.kind == "stmt" and isinstance(e.node, ast.Assign) and "__lastLocal" in unparse(e.node.targets[0]) and unparse(e.node.value) == lp for e in evs)
            col.check(sets_last, "R07.4", f"{WA}::Code.AddLocal new group becomes the last group", "the appended group is remembered as the last group", "the appended group is not remembered as the last group", WA, al)
    col.floor("R07.4", "paths through Code.AddLocal", np_, 2)
    rets = [unparse(r.value) for r in ast.walk(al) if isinstance(r, ast.Return)]
    col.check(rets == ["self.__lastLocalIndex"], "R07.4", f"{WA}::Code.AddLocal returns the running index", "returns the running index", f"returns {rets}", WA, al)
    ci = code.own_method("__init__")
    col.check("self.__lastLocalIndex = -1" in unparse(ci), "R07.4", f"{WA}::Code.__init__ index base", "the running index starts at -1 (first local gets 0)", "the running index does not start at -1", WA, ci)
    # ---------------- R07.5 ------------------------------------------------------
    vt = model.enum_members(WA, "ValueType")
    for nme, byte in oracles.WASM_VALTYPES.items():
        col.check(vt.get(nme) == byte, "R07.5", f"{WA}::ValueType.{nme}", hex(byte), f"ValueType.{nme} = {vt.get(nme)}; WebAssembly 1.0 encodes {nme} as {hex(byte)}", WA, model.cls(WA, "ValueType").node)
    col.check(vt.get("function") == oracles.WASM_FUNCTYPE_TAG and vt.get("funcref") == oracles.WASM_FUNCREF, "R07.5", f"{WA}::ValueType function/funcref", "0x60 / 0x70", f"function={vt.get('function')}, funcref={vt.get('funcref')}", WA, model.cls(WA, "ValueType").node)
    cft = model.func(GEN, "_ConvertFunctionType")
    ok_void = False
    for n in ast.walk(cft):
        if isinstance(n, ast.If) and "IsVoid" in unparse(n.test):
            neg = isinstance(n.test, ast.UnaryOp)
            body = n.body if neg else n.orelse
            ok_void = any("resultTypes.append" in unparse(s) or "append" in unparse(s) for s in body) and not any("append" in unparse(s) for s in (n.orelse if neg else n.body))
    uncond = [s for s in cft.body if isinstance(s, ast.Expr) and "append" in unparse(s) and "ReturnType" in unparse(s)]
    col.check(ok_void and not uncond, "R07.5", f"{GEN}::_ConvertFunctionType void result", "a void return type yields an empty result list",
              "the result list always receives the converted return type: for void that is a heap-type byte, which is not a value type (invalid signature)", GEN, cft)
    from ..sem import iterations

    args_ok = any("Arguments.values()" in unparse(it) and any("_ConvertType" in unparse(b) for b in body) for it, tgt, body, kind in iterations(cft))
    col.check(args_ok, "R07.5", f"{GEN}::_ConvertFunctionType parameters", "every parameter type is converted in order", None, GEN, cft)
    # roles: the list built from the parameters goes to the signature's parameter slot, the one built from the return type to its result slot
    fti = model.cls(WA, "FunctionType").own_method("__init__")
    ftw = model.cls(WA, "FunctionType").own_method("WriteTo")
    from ..sem import expand_helpers as _xh75

    ftw = _xh75(model, model.cls(WA, "FunctionType"), ftw, skip=("v_", "WriteTo"))  # a shared "write one vector" helper is read in place
    slots = [a.arg for a in fti.args.args[1:]]
    fields = {}
    for n in ast.walk(fti):
        if isinstance(n, ast.Assign) and isinstance(n.targets[0], ast.Attribute) and isinstance(n.value, ast.Name) and n.value.id in slots:
            fields[n.value.id] = n.targets[0].attr
    order_w = [unparse(lp.iter).split(".")[-1] for lp in ast.walk(ftw) if isinstance(lp, ast.For)]  # vec(params) is written first, then vec(results)
    mk = [c for c in ast.walk(cft) if isinstance(c, ast.Call) and last_attr(c) == "FunctionType"]
    role = {}
    for nm_ in {a.id for c in mk for a in c.args if isinstance(a, ast.Name)}:
        fed = " ".join(unparse(n) for n in ast.walk(cft) if isinstance(n, (ast.For, ast.If, ast.Assign)) and f"{nm_}.append" in unparse(n) or (isinstance(n, ast.Assign) and unparse(n.targets[0]) == nm_))
        role[nm_] = "params" if "Arguments" in fed else "results" if "ReturnType" in fed else "?"
    good_roles = False
    if mk and len(slots) == 2 and len(order_w) == 2 and all(isinstance(a, ast.Name) for a in mk[0].args) and len(mk[0].args) == 2 and not mk[0].keywords:
        first_field, second_field = order_w
        passed = {fields.get(slots[0]): role.get(mk[0].args[0].id), fields.get(slots[1]): role.get(mk[0].args[1].id)}
        good_roles = passed.get(first_field) == "params" and passed.get(second_field) == "results"
    elif mk and mk[0].keywords:
        kw_ = {k.arg: role.get(k.value.id) if isinstance(k.value, ast.Name) else "?" for k in mk[0].keywords}
        pos_ = {slots[i]: role.get(a.id) if isinstance(a, ast.Name) else "?" for i, a in enumerate(mk[0].args)}
        passed = {fields.get(s_): r_ for s_, r_ in {**pos_, **kw_}.items()}
        good_roles = len(order_w) == 2 and passed.get(order_w[0]) == "params" and passed.get(order_w[1]) == "results"
    col.check(good_roles, "R07.5", f"{GEN}::_ConvertFunctionType roles", "parameter types fill the vector written first, result types the vector written second",
              f"FunctionType is built with {[unparse(a) for a in mk[0].args] if mk else None} (roles {role}); the writer emits {order_w} in that order: parameters and results are exchanged, "
              "every signature with a result is wrong", GEN, mk[0] if mk else cft)
    ctf = model.func(GEN, "_ConvertType")
    nonval = [unparse(r.value) for r in ast.walk(ctf) if isinstance(r, ast.Return) and r.value is not None and "ValueType." not in unparse(r.value) and "HeapType" not in unparse(r.value)]
    if nonval:
        col.bad("R07.5", f"{GEN}::_ConvertType returns non-1.0 types", f"vector/matrix/array/struct types are converted to GC struct types ({sorted(set(nonval))[:3]}), which are not WebAssembly 1.0 value types: "
                "a function with such a parameter or local yields an invalid 1.0 module instead of a refusal", GEN, ctf)
    else:
        col.ok("R07.5", f"{GEN}::_ConvertType returns non-1.0 types", "only 1.0 value types are produced")
    # locals are only created for non-void values
    skip_void = [n for n in ast.walk(vf) if isinstance(n, ast.If) and "IsVoid" in unparse(n.test) and any(isinstance(s, ast.Continue) for s in n.body)]
    col.check(bool(skip_void), "R07.5", f"{GEN}::v_Function no local for void values", "void-typed instructions get no local", None, GEN, vf)
    # ---------------- R07.6 ------------------------------------------------------
    effects = {"local.get": 1, "local.set": -1, "return": 0}
    for hname in ("v_VariableAccessInstruction", "v_BinaryInstruction", "v_ReturnInstruction"):
        h = gv.own_method(hname)
        for evs, status in paths(h.body):
            if status == "raise":
                continue
            depth = 0
            seq = []
            for e in evs:
                if e.kind == "loop" and e.val == 1 and "Values" in unparse(e.node.iter):
                    # loop over the two operands: body executed twice
                    pass
            for c in calls_on_path(evs):
                la = last_attr(c)
                if la == "__PushValueOntoStack":
                    depth += 1
                    seq.append("push")
                elif la == "Instruction":
                    a0 = c.args[0] if c.args else None
                    mn = None
                    if isinstance(a0, ast.Subscript) and isinstance(a0.slice, ast.Constant):
                        mn = a0.slice.value
                    if mn in effects:
                        depth += effects[mn]
                        seq.append(mn)
                    else:
                        depth -= 1  # binary operator: pops two, pushes one
                        seq.append("binop")
            if hname == "v_BinaryInstruction":
                # the operand loop runs once in the path model; it pushes both operands
                pushes = seq.count("push")
                looped = any(e.kind == "loop" and e.val == 1 for e in evs)
                if looped and pushes == 1:
                    depth += 1
                elif not looped and any(e.kind == "loop" for e in evs):
                    continue  # the zero-iteration branch of the operand loop: a binary instruction always has its two operands
                elif not looped:
                    # a path that emits without pushing the operands computes the result in the generator: what it writes as
                    # an immediate is not limited to the i32 range and ignores wrap-around
                    col.check(not seq, "R07.6", f"{GEN}::{hname} every emitting path evaluates its operands", "no instruction is emitted on a path that skips the operand loop",
                              f"a path emits {seq} without pushing the instruction's operands: the result is computed at compile time with unbounded integers, so an immediate outside "
                              "the i32 range (or a wrapped result) is written", GEN, h)
                    continue
                col.check(depth == 0 and seq[-1] == "local.set", "R07.6", f"{GEN}::{hname} stack template", f"push, push, op, local.set ({seq})",
                          f"emitted template {seq} leaves {depth} value(s) on the stack", GEN, h)
            elif hname == "v_VariableAccessInstruction":
                if seq:
                    col.check(depth == 0, "R07.6", f"{GEN}::{hname} stack template", f"{seq} is stack-neutral", f"emitted template {seq} changes the stack depth by {depth}", GEN, h)
            else:
                val = any(" ".join(unparse(e.node).split()) == f"{h.args.args[1].arg}.Value" and e.val for e in evs if e.kind == "cond")
                col.check(seq[-1:] == ["return"] and depth == (1 if val else 0), "R07.6", f"{GEN}::{hname} stack template [{'value' if val else 'void'}]",
                          f"{seq}", f"emitted template {seq} (depth {depth}) does not push exactly the result before `return`", GEN, h)
    # the generator translates the instruction classes the templates above cover and refuses the rest (v_Default raises): a
    # handler for another class emits code no rule here has looked at; and the function handler itself emits nothing - the body
    # is the instructions' templates
    genv = next((c_ for c_ in model.classes.values() if c_.file == GEN and "v_Function" in c_.methods and "v_Default" in c_.methods), None)
    if genv is None:
        raise AnchorMissing(f"{GEN}: generator visitor")
    covered = {"v_Default", "v_Generic", "v_Visit", "v_Function", "v_BinaryInstruction", "v_VariableAccessInstruction", "v_ReturnInstruction"}
    extra = sorted(h_ for h_ in genv.methods if h_.startswith("v_") and h_ not in covered
                   and any(isinstance(c_, ast.Call) and last_attr(c_) in ("AddInstruction", "Instruction", "AddLocal") for c_ in ast.walk(genv.methods[h_])))
    col.check(not extra, "R07.6", f"{GEN}::{genv.name} emits only through covered templates", f"emitting handlers: {sorted(covered - {'v_Default', 'v_Generic', 'v_Visit'})}",
              f"handler(s) {extra} emit instructions for a class the stack / type templates do not cover: whether the emitted sequence type-checks (operand types, signedness of the "
              "conversion, stack depth) is not established", GEN, genv.methods[extra[0]] if extra else genv.node)
    vfw = genv.methods["v_Function"]
    own_emits = [c_ for c_ in ast.walk(vfw) if isinstance(c_, ast.Call) and last_attr(c_) in ("AddInstruction",)]
    col.check(not own_emits, "R07.6", f"{GEN}::v_Function emits nothing of its own", "the function body consists of the instructions' templates only",
              f"`{' '.join(unparse(own_emits[0]).split())[:70] if own_emits else ''}`: the function handler appends an instruction that no IR instruction stands for - its type need not be the "
              "function's result type, and it is unreachable or stack-unbalancing after a return", GEN, own_emits[0] if own_emits else vfw)
    # ---------------- R07.7 ------------------------------------------------------
    from . import c19
    from ..report import Collector

    sub = Collector("C19")
    c19.check_signed(model, sub, "R07.7")
    col.obligations.extend(sub.obligations)
    # every count, size, index and name length of the module is an unsigned LEB128 (= all of C19's encoding rules)
    sub = Collector("C19")
    c19.run(model, sub, "quick")
    seen_ = {(o.rule, o.construct) for o in col.obligations}
    for ob in sub.obligations:
        if ("R07.7", ob.construct) not in seen_:
            ob.detail = f"[{ob.rule}] " + (ob.detail or "")
            ob.rule = "R07.7"
            col.obligations.append(ob)
    # the operator an arithmetic / comparison instruction is translated to has the value type of its operands (= R06.3 the
    # operator table, R06.4 the operand type of a comparison): `i32.le_s` over f32 locals does not type-check
    from . import c06 as _c06

    sub = Collector("C06")
    _c06.run(model, sub, "quick", share=False)
    n06 = 0
    for ob in sub.obligations:
        if ob.rule in ("R06.3", "R06.4"):
            ob.detail = f"[{ob.rule}] " + (ob.detail or "")
            ob.rule = "R07.6"
            col.obligations.append(ob)
            n06 += 1
    col.floor("R07.6", "operator-selection obligations shared with C06", n06, 10)
    # ---------------- R07.8 nothing of one function / one compilation leaks into the next ------------
    # per-function tables of v_Function are created in v_Function
    filled = {}
    for n in ast.walk(vf):
        if isinstance(n, ast.Assign) and isinstance(n.targets[0], ast.Subscript) and isinstance(n.targets[0].value, ast.Name):
            filled.setdefault(n.targets[0].value.id, n)
    col.floor("R07.8", "per-function tables of v_Function", len(filled), 2)
    for nm, site in sorted(filled.items()):
        vals = find_assign(vf, nm)
        fresh = bool(vals) and all(isinstance(v, (ast.Dict, ast.DictComp, ast.List, ast.ListComp)) or (isinstance(v, ast.Call) and dotted(v.func) in ("dict", "list", "collections.OrderedDict")) for v in vals)
        col.check(fresh, "R07.8", f"{GEN}::v_Function table `{nm}` is per function", "created empty in v_Function",
                  f"`{nm}` is bound to {[unparse(v)[:40] for v in vals]}, not to a container created in v_Function: entries of previously generated functions are still in it "
                  "(locals are declared with another function's register types)", GEN, site)
    # the generator and the module it fills are created per compilation; no module- or class-level container in the emitter
    from . import c18

    sub = Collector("C18")
    c18.run(model, sub, "quick")
    for ob in sub.obligations:
        if ob.rule == "R18.2" and any(k in ob.construct for k in ("GenerateWasm", "WebAssembly", "wasm")):
            ob.rule = "R07.8"
            col.obligations.append(ob)
    # ---------------- R07.9 the module is finalised once ----------------------------------------------
    # Finalize completes the module by *adding* to it (table, element segment, ..): a second call adds them again
    from ..pipeline import Pipeline as _P79

    fin = None
    for ci_ in model.classes.values():
        if ci_.file == GEN and "Finalize" in ci_.methods:
            fin = ci_.methods["Finalize"]
    if fin is None:
        raise AnchorMissing(f"{GEN}::Finalize")
    selfn_ = fin.args.args[0].arg
    adds = [unparse(c.func) for c in ast.walk(fin) if isinstance(c, ast.Call) and isinstance(c.func, ast.Attribute) and c.func.attr.startswith(("Add", "append", "extend", "Set", "insert"))
            and unparse(c.func.value).startswith(selfn_ + ".")]
    adds += [unparse(n.targets[0]) for n in ast.walk(fin) if isinstance(n, ast.Assign) and isinstance(n.targets[0], ast.Attribute) and unparse(n.targets[0].value) == selfn_]
    comp79 = _P79(model).compile
    most = 0
    for evs, status in paths(comp79.body, loop_iters=(0, 1)):
        if status == "raise":
            continue
        most = max(most, sum(1 for c in calls_on_path(evs) if last_attr(c) == "Finalize"))
    col.check(most <= 1 or not adds, "R07.9", "nsl/Compiler.py::Compile finalises the wasm module once", f"Finalize (which adds to the module: {adds[:3]}) is called at most once per compilation",
              f"a path of Compile calls Finalize {most} times; each call adds to the module again ({adds[:3]}): the emitted binary has a second table / duplicate entries and does not validate", "nsl/Compiler.py", comp79)
    col.check(most >= 1, "R07.9", "nsl/Compiler.py::Compile finalises the wasm module", "the returned module went through Finalize", "Compile never finalises the wasm module", "nsl/Compiler.py", comp79)
    # ---------------- R07.10 export names are unique because they are the IR function names ----------
    # (IR function names are unique in a module: raw names of exported functions, mangled names of the others; a name derived
    # from them by cutting or stripping can repeat, and a module with two exports of one name is invalid)
    from ..sem import local_env as _le710, resolve as _rs710

    nexp = 0
    for fn_ in [x for x in ast.walk(model.file(GEN).tree) if isinstance(x, ast.FunctionDef)]:
        inner_ = {id(y) for d_ in ast.walk(fn_) if isinstance(d_, ast.FunctionDef) and d_ is not fn_ for y in ast.walk(d_)}
        env_ = _le710(fn_, allow_impure=True)
        pnames = {a.arg for a in fn_.args.args}
        for c in ast.walk(fn_):
            if id(c) in inner_ or not (isinstance(c, ast.Call) and last_attr(c) == "Export" and len(c.args) >= 2):
                continue
            nexp += 1
            nm_ = _rs710(c.args[1], env_)
            col.check(isinstance(nm_, ast.Name) and nm_.id in pnames, "R07.10", f"{GEN}::{fn_.name} exports a function under its own name", "Export(index, <the function's name as given>)",
                      f"the export name is `{' '.join(unparse(nm_).split())[:60]}`, computed from the function's name: two functions whose names differ only in the part cut off (overloads) "
                      "are exported under one name, which makes the module invalid", GEN, c)
    col.floor("R07.10", "export registrations in the generator", nexp, 1)
