"""C17 A stored IR module reloads to the same program."""
from __future__ import annotations

import ast

from ..model import AnalysisError, AnchorMissing, dotted, find_assign, last_attr, unparse, walk_no_nested

TITLE = "stored module: picklable object graph, one protocol both ways, listing reads stored state"
LEVEL = "other"
IR = "nsl/LinearIR.py"
TYPES = "nsl/types.py"
ASTF = "nsl/ast/__init__.py"
EXPLANATION = (
    "Round-trip equality is dynamic; decided are the structural necessary conditions. R17.1 the classes of the module's object "
    "graph (everything in nsl/LinearIR.py and nsl/types.py plus the front-end classes reachable through Metadata: ast.Node, "
    "Argument, Location, SourceMapping) use default object construction, identity and state transfer: none defines __new__, "
    "__reduce__/__reduce_ex__, __getstate__/__setstate__, __getnewargs__, __hash__, __getattr__/__getattribute__, __slots__, "
    "__copy__/__deepcopy__ (pickle re-creates objects through an argument-less __new__ and restores state after cyclic "
    "references were memoised, so each of these changes what a reloaded graph is), and no field is bound to a lambda, local "
    "function, generator, open file, module or a defaultdict with a non-importable factory. R17.2 nslc dumps result.IRModule "
    "with pickle to a file opened 'wb'; FilesystemModuleLoader opens 'rb' and pickle.loads, trying the given path before the "
    "'.nslir' sibling; nslr goes through that loader. R17.3 everything InstructionPrinter formats is read from fields of that "
    "graph: no id()/hash(), and every IR type class that can be an instruction's type defines __str__. R17.4 nothing derived "
    "from hash()/id() is stored. R17.5 the runner converts an argument to what the stored signature says. R17.6 the front end "
    "writes the module the compiler returned: nothing is taken out of its Functions/Globals/Imports/Metadata tables between "
    "compiling and writing, and no instance of a class defined in the script (pickled as __main__.X) is put into them."
)
NOT_DECIDED = "equality of listing and behaviour after reload (dynamic); cross-process class identity"
ASSUMPTIONS = ["pickle protocol semantics of CPython 3.12 (default __reduce_ex__: copyreg.__newobj__ + instance __dict__)"]

HOSTILE = {"__new__", "__reduce__", "__reduce_ex__", "__getstate__", "__setstate__", "__getnewargs__", "__getnewargs_ex__", "__hash__",
           "__getattr__", "__getattribute__", "__copy__", "__deepcopy__", "__setattr__", "__init_subclass__", "__class_getitem__"}
FRONT_END = ["Node", "Argument", "Location", "SourceMapping", "ArgumentModifier"]


def graph_classes(model):
    out = []
    for ci in model.classes.values():
        if ci.file in (IR, TYPES) and "." not in ci.qualname:
            out.append(ci)
        elif ci.file == ASTF and ci.qualname in FRONT_END:
            out.append(ci)
        elif ci.file == "nsl/Visitor.py" and ci.qualname == "Node":
            out.append(ci)
    out.sort(key=lambda c: (c.file, c.node.lineno))
    return out


def run(model, col, tier):
    classes = graph_classes(model)
    col.note("object-graph classes", len(classes))
    col.floor("R17.1", "classes of the module object graph", len(classes), 40)
    # ---------------- R17.1 ------------------------------------------------------
    # pickle stores an object's instance state only, and only if every value in it can be pickled
    from ..state import is_mutable_literal as _iml

    UNPICKLABLE_CALLS = {"MappingProxyType", "iter", "map", "filter", "zip", "open", "Lock", "RLock", "ref", "proxy", "WeakValueDictionary", "WeakKeyDictionary", "WeakSet", "BytesIO", "StringIO"}
    nfields = 0
    for ci in classes:
        for aname, aval in ci.class_attrs.items():
            if not _iml(aval):
                continue
            muts = []
            for m in ci.methods.values():
                for n in ast.walk(m):
                    if isinstance(n, ast.Attribute) and n.attr == aname and isinstance(n.value, ast.Name) and n.value.id == (m.args.args[0].arg if m.args.args else "self"):
                        muts.append(m.name)
            rebound = any(isinstance(n, ast.Assign) and isinstance(n.targets[0], ast.Attribute) and n.targets[0].attr == aname for m in ci.methods.values() if m.name == "__init__" for n in ast.walk(m))
            col.check(rebound or not muts, "R17.1", f"{ci.file}::{ci.name}.{aname} is instance state", "every container an instance fills is created in __init__",
                      f"`{aname}` is a class-level container used through self in {sorted(set(muts))} and never re-bound in __init__: it is not part of the instance state pickle stores, "
                      "so a stored module reloads without it (and all instances in a process share it)", ci.file, aval)
        for m in ci.methods.values():
            for n in ast.walk(m):
                if isinstance(n, (ast.Assign, ast.AnnAssign)) and n.value is not None:
                    tg = n.targets[0] if isinstance(n, ast.Assign) else n.target
                    if isinstance(tg, ast.Attribute) and isinstance(tg.value, ast.Name) and m.args.args and tg.value.id == m.args.args[0].arg:
                        nfields += 1
                        v = n.value
                        why = None
                        if isinstance(v, (ast.Lambda, ast.GeneratorExp)):
                            why = "a lambda / generator"
                        elif isinstance(v, ast.Call) and last_attr(v) in UNPICKLABLE_CALLS:
                            why = f"the result of {last_attr(v)}(...)"
                        elif isinstance(v, ast.Call) and isinstance(v.func, ast.Attribute) and v.func.attr in ("keys", "values", "items") and not v.args:
                            why = "a dictionary view"
                        if why:
                            col.bad("R17.1", f"{ci.file}::{ci.name}.{m.name} stores {unparse(tg)}", f"`{' '.join(unparse(n).split())[:70]}` stores {why} in the object: pickle.dump raises for it, "
                                    "so every module that contains such an object can no longer be stored", ci.file, n)
    col.floor("R17.1", "field stores in the IR classes", nfields, 60)
    for ci in classes:
        if ci.name in ("InstructionPrinter", "Linker", "ModuleLoader", "FilesystemModuleLoader", "MemoryModuleLoader", "Program"):
            continue
        bad_dunder = sorted(set(ci.methods) & HOSTILE) + (["__slots__"] if "__slots__" in ci.class_attrs else [])
        col.check(not bad_dunder, "R17.1", f"{ci.file}::{ci.name} default construction/identity/state",
                  "no custom __new__/__reduce__/__getstate__/__setstate__/__hash__/__getattr__/__slots__",
                  f"{ci.name} defines {bad_dunder}: unpickling re-creates instances through an argument-less __new__ and fills their state only after the objects that refer to them "
                  "(cyclic parent links, use lists keyed by value) were rebuilt, so a stored module reloads to a different graph or fails to load", ci.file, ci.methods.get(bad_dunder[0]) if bad_dunder and bad_dunder[0] in ci.methods else ci.node)
        for m in ci.methods.values():
            if not m.args.args:
                continue
            s = m.args.args[0].arg
            local_funcs = {n.name for n in ast.walk(m) if isinstance(n, ast.FunctionDef) and n is not m}
            local_classes = {n.name for n in ast.walk(m) if isinstance(n, ast.ClassDef)}
            for n in ast.walk(m):
                if isinstance(n, ast.Assign) and isinstance(n.targets[0], ast.Attribute) and isinstance(n.targets[0].value, ast.Name) and n.targets[0].value.id == s:
                    v = n.value
                    why = None
                    if isinstance(v, ast.Lambda):
                        why = "a lambda"
                    elif isinstance(v, ast.GeneratorExp):
                        why = "a generator"
                    elif isinstance(v, ast.Name) and v.id in local_funcs:
                        why = "a function defined inside a method"
                    elif isinstance(v, ast.Call) and dotted(v.func) in ("open", "io.open"):
                        why = "an open file"
                    elif isinstance(v, ast.Call) and last_attr(v) == "defaultdict" and v.args and not (isinstance(v.args[0], ast.Name) and v.args[0].id in ("list", "dict", "set", "int", "float", "str")):
                        why = f"a defaultdict whose factory `{unparse(v.args[0])}` is not an importable builtin"
                    elif isinstance(v, ast.Call) and isinstance(v.func, ast.Name) and v.func.id in local_classes:
                        why = "an instance of a class defined inside a method"
                    elif isinstance(v, ast.Call) and last_attr(v) == "namedtuple":
                        why = "a namedtuple class created at run time"
                    if why:
                        col.bad("R17.1", f"{ci.file}::{ci.name}.{n.targets[0].attr} is picklable", f"`{unparse(n)[:70]}` binds {why}, which pickle cannot store (or restores as a different object)", ci.file, n)
        col.ok("R17.1", f"{ci.file}::{ci.name} fields are picklable", "no field is bound to a lambda/local function/generator/file/run-time class")
    # Value identity: instructions are compared with `==` in GetPreviousInstruction / AddInstructionBefore: default identity equality
    val = model.cls(IR, "Value")
    col.check("__eq__" not in val.methods, "R17.1", f"{IR}::Value keeps identity equality", "values compare by identity", "Value defines __eq__: use lists and instruction lookup change meaning", IR, val.node)
    # ---------------- R17.2 ------------------------------------------------------
    nslc = model.file("nslc.py")
    dumps = [c for c in ast.walk(nslc.tree) if isinstance(c, ast.Call) and dotted(c.func) == "pickle.dump"]
    col.check(len(dumps) == 1 and unparse(dumps[0].args[0]) == "result.IRModule" and unparse(dumps[0].args[1]) == "args.output" and not dumps[0].keywords, "R17.2",
              "nslc.py::pickle.dump(result.IRModule, args.output)", "the whole IR module object is dumped with the default protocol", "the driver does not dump result.IRModule with pickle.dump", "nslc.py", nslc.tree)
    outarg = [c for c in ast.walk(nslc.tree) if isinstance(c, ast.Call) and last_attr(c) == "add_argument" and any(isinstance(a, ast.Constant) and a.value == "--output" for a in c.args)]
    col.check(bool(outarg) and "FileType('wb')" in unparse(outarg[0]), "R17.2", "nslc.py::--output is opened 'wb'", "binary write", "the module file is not opened in binary write mode", "nslc.py", nslc.tree)
    opt = [v for d in ast.walk(nslc.tree) if isinstance(d, ast.Dict) for k, v in zip(d.keys, d.values) if isinstance(k, ast.Constant) and k.value == "optimize"]
    import re as _re17

    col.check(bool(opt) and bool(_re17.fullmatch(r"(\w+\.opt_level > 0|\w+\.opt_level >= 1|bool\(\w+\.opt_level\)|\w+\.opt_level != 0|0 < \w+\.opt_level|1 <= \w+\.opt_level)", " ".join(unparse(opt[0]).split()))), "R17.2", "nslc.py::optimisation switch", "-O maps to the optimize option", None, "nslc.py", nslc.tree)
    ld = model.cls(IR, "FilesystemModuleLoader").own_method("Load")
    if ld is not None:
        from ..sem import expand_helpers as _xh172

        ld = _xh172(model, model.cls(IR, "FilesystemModuleLoader"), ld)
    loads = [c for c in ast.walk(ld) if isinstance(c, ast.Call) and dotted(c.func) == "pickle.load"]
    def _binary_open(a):
        return isinstance(a, ast.Call) and last_attr(a) == "open" and isinstance(a.func, ast.Attribute) and isinstance(a.func.value, ast.Name) \
            and [x.value for x in a.args if isinstance(x, ast.Constant)] == ["rb"] and not a.keywords

    col.check(len(loads) >= 1 and all(len(c.args) == 1 and _binary_open(c.args[0]) for c in loads), "R17.2", f"{IR}::FilesystemModuleLoader.Load protocol", "pickle.load(path.open('rb'))",
              "module files are not read with pickle.load from a binary stream", IR, ld)
    # lookup order: the path as given first, the .nslir sibling only if it does not exist
    # symbolic walk: the path variable is 'given' (Path(moduleName)) or 'suffixed' (.with_suffix('.nslir'));
    # every path that reaches pickle.load must have tested exists() on 'given' first and load 'suffixed' only if that failed
    from ..paths import paths as _paths

    good = True
    nload = 0
    for evs, status in _paths(ld.body):
        state = {}
        tests = []
        loaded = None
        for e in evs:
            if e.kind == "stmt" and isinstance(e.node, ast.Assign) and isinstance(e.node.targets[0], ast.Name):
                v = e.node.value
                t = unparse(v)
                nm = e.node.targets[0].id
                if t == f"pathlib.Path({ld.args.args[1].arg})" or t == f"Path({ld.args.args[1].arg})":
                    state[nm] = "given"
                elif isinstance(v, ast.Call) and last_attr(v) == "with_suffix" and isinstance(v.func.value, ast.Name) and state.get(v.func.value.id) == "given" and ("nslir" in t or _suffix_setting(model, v) == ".nslir"):
                    state[nm] = "suffixed"
                elif isinstance(v, ast.Name) and v.id in state:
                    state[nm] = state[v.id]
            if e.kind == "cond":
                base = e.node
                neg = False
                while isinstance(base, ast.UnaryOp) and isinstance(base.op, ast.Not):
                    base, neg = base.operand, not neg
                if isinstance(base, ast.Call) and last_attr(base) == "exists" and isinstance(base.func.value, ast.Name) and base.func.value.id in state:
                    tests.append((state[base.func.value.id], e.val != neg))
            node = e.node if e.kind in ("stmt", "return") else None
            if node is not None:
                for c in ast.walk(node):
                    if isinstance(c, ast.Call) and dotted(c.func) == "pickle.load":
                        inner = [x for x in ast.walk(c.args[0]) if isinstance(x, ast.Name) and x.id in state]
                        loaded = state[inner[0].id] if inner else "?"
        if loaded is None:
            continue
        nload += 1
        ok_ = (tests[:1] == [("given", True)] and loaded == "given") or (tests[:2] == [("given", False), ("suffixed", True)] and loaded == "suffixed")
        good = good and ok_
    good = good and nload >= 2
    if False:
        pass
    col.check(good, "R17.2", f"{IR}::FilesystemModuleLoader.Load lookup order", "the file named is loaded if it exists; '<name>.nslir' is only the fallback",
              "the loader does not try the given path first: a stale '<name>.nslir' next to the file just written is loaded instead of it", IR, ld)
    loaded_names = {n.targets[0].id for n in ast.walk(ld) if isinstance(n, ast.Assign) and isinstance(n.targets[0], ast.Name) and isinstance(n.value, ast.Call) and dotted(n.value.func) == "pickle.load"}
    rets17 = [unparse(r.value) for r in ast.walk(ld) if isinstance(r, ast.Return) and r.value is not None]
    col.check(len(loaded_names) == 1 and rets17 and set(rets17) <= loaded_names, "R17.2", f"{IR}::FilesystemModuleLoader.Load result", "returns the loaded Module", None, IR, ld)
    nslr = model.file("nslr.py")
    from ..sem import expand_module_helpers as _xmh172

    t = unparse(_xmh172(model, "nslr.py", model.func("nslr.py", "run")))  # module-level helpers of the runner read in place
    t = _re17.sub(r"\b(loader|module|linker)__\w+", r"\1", t)  # (locals of an inlined helper carry its name as a suffix)
    col.check("loader = LinearIR.FilesystemModuleLoader()" in t and "module = loader.Load(args.MODULE)" in t and "linker.AddModule(module)" in t, "R17.2", "nslr.py::run loads through the module loader",
              "the runner loads the file through FilesystemModuleLoader and links it", "the runner does not load the module through FilesystemModuleLoader", "nslr.py", nslr.tree)
    # ---------------- R17.3 ------------------------------------------------------
    pr = model.cls(IR, "InstructionPrinter")
    bad = []
    for m in pr.methods.values():
        for c in ast.walk(m):
            if isinstance(c, ast.Call) and dotted(c.func) in ("id", "hash", "repr", "object.__repr__"):
                bad.append((m.name, unparse(c)))
    col.check(not bad, "R17.3", f"{IR}::InstructionPrinter uses no identity-dependent value", "no id()/hash()/repr() in the listing",
              f"the listing prints {bad}: it differs between the stored and the reloaded module (and between processes)", IR, pr.node)
    base = model.cls(IR, "Type")
    for ci in model.subclasses(base, strict=True):
        if ci.name in ("ScalarType",):
            continue
        if ci.name == "FunctionType":
            col.ok("R17.3", f"{IR}::FunctionType.__str__ (exempt)", "never an instruction's type: only Function values carry it and the printer prints its argument names")
            continue
        col.check(ci.find_method("__str__") is not None, "R17.3", f"{IR}::{ci.name}.__str__", "the type prints from its fields",
                  f"{ci.name} has no __str__: the listing shows the default repr with a memory address", IR, ci.node)
    cvs = model.cls(IR, "ConstantValue")
    col.check(cvs.find_method("__str__") is not None, "R17.3", f"{IR}::ConstantValue.__str__", "constants print from their fields", None, IR, cvs.node)
    fr = pr.find_method("__FormatReference")
    if fr:
        t = unparse(fr[1])
        col.check("str(v.Value)" in t and "f'%{v.Reference}'" in t, "R17.3", f"{IR}::InstructionPrinter.__FormatReference", "operands print as the constant's value or %reference", None, IR, fr[1])
    # every operand the printer formats is an operand field of that instruction (not e.g. the parent block)
    for name, m in pr.methods.items():
        if not name.startswith("v_") or "Instruction" not in name:
            continue
        pn = m.args.args[1].arg
        for c in ast.walk(m):
            if isinstance(c, ast.Call) and last_attr(c) in ("__FormatReference", "__FormatLabel") and c.args and isinstance(c.args[0], ast.Attribute) and isinstance(c.args[0].value, ast.Name) and c.args[0].value.id == pn:
                col.check(c.args[0].attr != "Parent", "R17.3", f"{IR}::InstructionPrinter.{name} formats {c.args[0].attr}", "an operand of the instruction is printed",
                          f"`{unparse(c)}` prints the instruction's parent block where an operand belongs", IR, c)
    # the listing (and what is stored) does not depend on the hash seed of the process: no set is walked with an
    # order-dependent effect in the IR module, its printer or the print pass (= R18.1)
    from ..state import is_set_expr as _ise, set_typed_sources as _sts
    from .c18 import order_insensitive_body as _oib  # (the function only: C18's rule set itself draws on C17)

    sattrs, smeths = _sts(model)
    an_, mn_ = {a for _, a in sattrs}, {n_ for _, n_ in smeths}
    nset = 0
    for rel in (IR, "nsl/passes/PrintLinearIR.py"):
        for lp in [n_ for n_ in ast.walk(model.file(rel).tree) if isinstance(n_, ast.For)]:
            it = lp.iter
            if _ise(it, an_, mn_) or (isinstance(it, ast.Attribute) and it.attr in mn_) or (isinstance(it, ast.Call) and isinstance(it.func, ast.Attribute) and it.func.attr in mn_ and not it.args):
                nset += 1
                ok_, why_ = _oib(lp)
                col.check(ok_, "R17.3", f"{rel}:: loop over the set `{unparse(it)[:40]}` (line {lp.lineno})", "no order-dependent effect in the body",
                          f"the loop over the set `{unparse(it)[:40]}` {why_}: the listing (or what is stored) follows the hash seed of the process that produced it", rel, lp)
    col.note("loops over set-typed expressions in the IR module and its printer", nset)
    # ---------------- R17.4 nothing process-specific is stored --------------------------------------
    # str hashes are salted per process and id() is an address: a name or key derived from them and stored in the file
    # means something else to the process that loads it.  (hash() inside __hash__ only serves in-process containers.)
    probe = ast.parse("def f(n):\n    return '@' + str(hash(n))\n")
    if len(_identity_calls(probe)) != 1:
        raise AnalysisError("R17.4: the identity-call detector does not fire on its positive example")
    for rel in ("nsl/passes/LowerToIR.py", IR, "nsl/types.py", "nslc.py"):
        fi = model.files.get(rel)
        if fi is None:
            raise AnchorMissing(rel)
        hits = _identity_calls(fi.tree)
        col.check(not hits, "R17.4", f"{rel}:: stores nothing derived from hash()/id()", "no hash()/id() outside __hash__/__eq__",
                  (f"`{' '.join(unparse(hits[0]).split())[:70]}` (line {hits[0].lineno})" if hits else "") + ": the value differs from process to process, so what is written to a module file "
                  "(function names, keys) does not match what the loading process derives", rel, hits[0] if hits else fi.tree)
    # ---------------- R17.6 the front end writes the module the compiler produced -----------------------
    # (a) nothing is taken out of the module's tables between compiling and writing (= R16.8's removal rule, on the front
    #     ends and the compiler driver); (b) no object of a class defined in the script itself (pickled as `__main__.X`, a
    #     name the loading process does not have) is put into the module
    from .c16 import table_removals

    for rel in ("nslc.py", "nslr.py", "nsl/Compiler.py"):
        fi = model.files.get(rel)
        if fi is None:
            raise AnchorMissing(rel)
        hits = table_removals(fi.tree)
        col.check(not hits, "R17.6", f"{rel}:: writes the module as compiled", "no del / pop / clear on the module's Functions, Globals, Imports or Metadata",
                  (f"`{' '.join(unparse(hits[0][1]).split())[:80]}` takes entries out of `{hits[0][0]}`" if hits else "") + ": the file holds another module than the one the compiler "
                  "returned (and lists / runs in-process)", rel, hits[0][1] if hits else fi.tree)
    # (c) the front end calls no state-changing method of the compiled module (stamping a name, adding entries) and (d) does
    #     not take the written file away again: what is stored is what was compiled, for every program that compiled
    from .c16 import ir_writer_methods as _iwm

    writers_ = _iwm(model)
    fi = model.files["nslc.py"]
    stamped = [c for c in ast.walk(fi.tree) if isinstance(c, ast.Call) and isinstance(c.func, ast.Attribute) and c.func.attr in writers_ and "IRModule" in unparse(c.func.value)]
    stamped += [n for n in ast.walk(fi.tree) if isinstance(n, (ast.Assign, ast.AugAssign)) for t in (n.targets if isinstance(n, ast.Assign) else [n.target])
                if isinstance(t, ast.Attribute) and "IRModule" in unparse(t.value)]
    col.check(not stamped, "R17.6", "nslc.py:: leaves the compiled module as it is", "no state-changing call on / attribute store into result.IRModule",
              (f"`{' '.join(unparse(stamped[0]).split())[:70]}` changes the module between compiling and writing" if stamped else "") + ": the stored module differs from the one that was "
              "compiled (listed / run / linked in-process), e.g. it carries a name the linker then holds against its file name", "nslc.py", stamped[0] if stamped else fi.tree)
    removed = [c for c in ast.walk(fi.tree) if isinstance(c, ast.Call) and ((dotted(c.func) or "") in ("os.remove", "os.unlink", "os.truncate", "shutil.rmtree", "os.replace", "os.rename")
                                                                            or (isinstance(c.func, ast.Attribute) and c.func.attr in ("unlink", "truncate")))]
    col.check(not removed, "R17.6", "nslc.py:: keeps the file it wrote", "no remove / unlink / truncate / rename in the front end",
              (f"`{' '.join(unparse(removed[0]).split())[:70]}`" if removed else "") + ": a module that compiled can end up without its file (a check after writing that some valid modules fail)",
              "nslc.py", removed[0] if removed else fi.tree)
    probe = ast.parse("import collections\nR = collections.namedtuple('R', 'a b')\ndef f(m):\n    rs = []\n    for n in m.Imports:\n        rs.append(R(n, 1))\n    m.Metadata['i'] = rs\n")
    if len(_script_objects_stored(probe)) != 1:
        raise AnalysisError("R17.6: the script-class detector does not fire on its positive example")
    fi = model.files["nslc.py"]
    hits = _script_objects_stored(fi.tree)
    col.check(not hits, "R17.6", "nslc.py:: stores no object of a script-defined class in the module", "classes of the object graph live in importable modules",
              (f"`{' '.join(unparse(hits[0][1]).split())[:70]}` stores an instance of `{hits[0][0]}`, defined in the script" if hits else "") + ": pickle records it as `__main__."
              + (hits[0][0] if hits else "") + "`, which another process (nslr.py, an importer) cannot resolve - the module file does not load", "nslc.py", hits[0][1] if hits else fi.tree)
    # ---------------- R17.5 the runner hands the VM what the signature says -------------------------
    from ..miniev import CannotEval, ev
    from ..paths import paths

    nslr = model.file("nslr.py")
    runf = nslr.functions.get("run")
    if runf is None:
        raise AnchorMissing("nslr.py::run")
    from ..sem import local_env as _le175, rtext as _rt175

    env175 = _le175(runf, allow_impure=True)
    loop = next((l for l in ast.walk(runf) if isinstance(l, ast.For) and "Arguments" in _rt175(l.iter, env175)), None)
    tnames = [x.id for x in ast.walk(loop.target) if isinstance(x, ast.Name)] if loop is not None else []
    if loop is None or len(tnames) < 2 or ".items()" not in _rt175(loop.iter, env175):
        raise AnchorMissing("nslr.py::run loop over entryPoint.Type.Arguments.items()")
    # items() yields (name, type): the type is the last name bound by the loop target, however it is nested (enumerate(..))
    tname = [x.id for x in sorted((x for x in ast.walk(loop.target) if isinstance(x, ast.Name)), key=lambda x: (x.lineno, x.col_offset))][-1]
    int_strs = sorted({c.value for r in ast.walk(model.cls(IR, "IntegerType").find_method("__str__")[1]) if isinstance(r, ast.Return) for c in ast.walk(r) if isinstance(c, ast.Constant) and isinstance(c.value, str)})
    flt_strs = sorted({c.value for r in ast.walk(model.cls(IR, "FloatType").find_method("__str__")[1]) if isinstance(r, ast.Return) for c in ast.walk(r) if isinstance(c, ast.Constant) and isinstance(c.value, str)})
    kinds = [("IntegerType", s, "<int>") for s in int_strs] + [("FloatType", s, "<float>") for s in flt_strs]
    col.floor("R17.5", "scalar IR types the runner converts", len(kinds), 3)
    for cname, text, want in kinds:
        env = {"int": "<int>", "float": "<float>", f"str({tname})": text, f"{tname}.IsScalar()": True, f"{tname}.Unsigned": text.startswith("u")}
        for k in ("IntegerType", "FloatType", "ScalarType", "Type"):
            for pre in ("LinearIR.", ""):
                env[f"isinstance({tname}, {pre}{k})"] = (k == cname or k in ("ScalarType", "Type"))

        def fold(t, env=env):
            try:
                return bool(ev(t, env))
            except CannotEval:
                return None

        got = set()
        for evs, status in paths(loop.body, fold=fold):
            e2 = dict(env)
            conv = "nothing"
            for e in evs:
                if e.kind != "stmt" or not isinstance(e.node, ast.Assign):
                    continue
                tgt, val = e.node.targets[0], e.node.value
                if isinstance(tgt, ast.Name):
                    try:
                        e2[tgt.id] = ev(val, e2)
                    except CannotEval:
                        e2.pop(tgt.id, None)
                elif isinstance(tgt, ast.Subscript) and isinstance(val, ast.Call):
                    try:
                        f_ = ev(val.func, e2)
                    except CannotEval:
                        f_ = unparse(val.func)
                    conv = f_ if len(val.args) == 1 and not val.keywords else f"{f_} with extra arguments ({unparse(val)})"
                elif isinstance(tgt, ast.Subscript):
                    conv = f"`{unparse(val)}`"
            got.add(conv)
        col.check(got == {want}, "R17.5", f"nslr.py::run converts a `{text}` argument", f"{want[1:-1]}(<text>) for an IR {cname} parameter",
                  f"a `{text}` parameter ({cname}) is handed to the VM as {sorted(got)}: the stored module is invoked with other values (or a string is refused) than the in-memory one", "nslr.py", loop)


def _suffix_setting(model, call):
    """`path.with_suffix(self.<f>)` where <f> is a constructor setting: the default of the parameter it is copied from"""
    a = call.args[0] if call.args else None
    if not (isinstance(a, ast.Attribute) and isinstance(a.value, ast.Name)):
        return None
    ci = model.cls(IR, "FilesystemModuleLoader")
    init = ci.own_method("__init__")
    if init is None:
        return None
    params = [x.arg for x in init.args.args[1:]] + [x.arg for x in init.args.kwonlyargs]
    defaults = dict(zip(reversed([x.arg for x in init.args.args]), reversed(init.args.defaults)))
    defaults.update({x.arg: d for x, d in zip(init.args.kwonlyargs, init.args.kw_defaults) if d is not None})
    for n in ast.walk(init):
        if isinstance(n, ast.Assign) and isinstance(n.targets[0], ast.Attribute) and n.targets[0].attr in (a.attr, a.attr.split("__")[-1]) and isinstance(n.value, ast.Name) and n.value.id in params:
            d = defaults.get(n.value.id)
            return d.value if isinstance(d, ast.Constant) else None
    return None


def _through_table(e):
    from .c16 import MODULE_TABLES

    return any(isinstance(n, ast.Attribute) and n.attr in MODULE_TABLES for n in ast.walk(e))


def _script_objects_stored(tree):
    """[(class name, statement)] stores of instances of classes defined in this script into something the function was
    handed (a parameter, or an attribute / table reached from one): a small taint pass per function."""
    defined = set()
    for st in tree.body:
        if isinstance(st, ast.ClassDef):
            defined.add(st.name)
        elif isinstance(st, ast.Assign) and isinstance(st.value, ast.Call) and last_attr(st.value) in ("namedtuple", "NamedTuple", "make_dataclass", "Enum", "IntEnum"):
            defined |= {t.id for t in st.targets if isinstance(t, ast.Name)}
    out = []
    if not defined:
        return out
    scopes = [f for f in ast.walk(tree) if isinstance(f, (ast.FunctionDef, ast.AsyncFunctionDef))] + [tree]
    for f in scopes:
        tainted = {}

        def dirty(e):
            for n in ast.walk(e):
                if isinstance(n, ast.Call) and isinstance(n.func, ast.Name) and n.func.id in defined:
                    return n.func.id
                if isinstance(n, ast.Name) and n.id in tainted:
                    return tainted[n.id]
            return None

        body = list(ast.walk(f)) if f is not tree else [n for st in tree.body if not isinstance(st, (ast.FunctionDef, ast.ClassDef)) for n in ast.walk(st)]
        for _ in range(4):
            for n in body:
                if isinstance(n, ast.Assign) and len(n.targets) == 1 and isinstance(n.targets[0], ast.Name) and dirty(n.value):
                    tainted.setdefault(n.targets[0].id, dirty(n.value))
                elif isinstance(n, ast.Call) and isinstance(n.func, ast.Attribute) and n.func.attr in ("append", "add", "extend", "insert", "update") and isinstance(n.func.value, ast.Name) \
                        and any(dirty(a) for a in n.args):
                    tainted.setdefault(n.func.value.id, next(dirty(a) for a in n.args if dirty(a)))
        for n in body:
            if isinstance(n, ast.Assign) and dirty(n.value):
                for t in n.targets:
                    if isinstance(t, (ast.Subscript, ast.Attribute)) and not (isinstance(t.value, ast.Name) and t.value.id in tainted):
                        root = t
                        while isinstance(root, (ast.Subscript, ast.Attribute)):
                            root = root.value
                        if isinstance(root, ast.Name) and root.id not in tainted and root.id != "self" and _through_table(t):
                            out.append((dirty(n.value), n))
            elif isinstance(n, ast.Call) and isinstance(n.func, ast.Attribute) and n.func.attr in ("append", "add", "extend", "insert", "update", "setdefault") \
                    and isinstance(n.func.value, (ast.Attribute, ast.Subscript)) and any(dirty(a) for a in n.args):
                root = n.func.value
                while isinstance(root, (ast.Subscript, ast.Attribute)):
                    root = root.value
                if isinstance(root, ast.Name) and root.id not in tainted and root.id != "self" and _through_table(n.func.value):
                    out.append((next(dirty(a) for a in n.args if dirty(a)), n))
    return out


def _identity_calls(tree):
    out = []
    skip = set()
    for f in ast.walk(tree):
        if isinstance(f, ast.FunctionDef) and f.name in ("__hash__", "__eq__"):
            skip |= {id(x) for x in ast.walk(f)}
    for c in ast.walk(tree):
        if isinstance(c, ast.Call) and isinstance(c.func, ast.Name) and c.func.id in ("hash", "id") and id(c) not in skip:
            out.append(c)
    return out
