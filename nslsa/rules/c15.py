"""C15 Global state persists exactly across invocation histories; VMs are isolated."""
from __future__ import annotations

import ast

from ..model import AnalysisError, AnchorMissing, dotted, find_assign, last_attr, mangle, unparse, walk_no_nested
from ..state import is_mutable_literal, module_level_mutables, mutable_defaults, mutations_in, root_name, writes_to_global
from ..vmmodel import VMModel, VM, IR
from . import c03

TITLE = "VM state ownership: program read-only, one globals map per VM, fresh frames and default instances"
LEVEL = "other"
EXPLANATION = (
    "Histories are run-time objects; what is decided is who can write what. R15.1 effect analysis of nsl/VM.py: every in-place "
    "mutation and every attribute store has a receiver rooted in the activation's own containers (value map, argument list, "
    "locally built lists) or the VM's globals map - never in the shared program (function, block, instruction, constant, type). "
    "R15.2 the globals map is created per VirtualMachine (no class/module-level state, no mutable default argument), handed as "
    "that object to its ExecutionContext and addressed by SetGlobal/GetGlobal; value maps are fresh per activation (= R03.1/2). "
    "R15.3 the only writes to the globals map reachable from Invoke are the STORE arm under GLOBAL scope and in-place element/"
    "member stores. R15.4 default instances are built freshly per declaration: the creators consult no instance state (no cache) "
    "and replicate no value of a kind that some arm mutates in place. R15.5 constants handed to CreateConstant are immutable "
    "scalars, and the argument list handed to a callee is built on every path of the CALL arm. R15.3 also: a name that denotes "
    "a global is lowered to accesses of that global (= R12.1/R12.4). R15.6 load forwarding and instruction removal (= R02.7/R02.2). "
    "R15.7 the program's globals are those of all linked modules."
)
NOT_DECIDED = "equivalence with the reference state machine over all histories; host aliasing (SetGlobal keeps the host's object by reference, which the test-suite relies on)"
ASSUMPTIONS = ["vectors and matrix rows are only ever replaced (copying *_SET arms, C03 R03.3), so sharing them between default rows is harmless"]
LOWER = "nsl/passes/LowerToIR.py"


_IN_C12 = [False]


def _own_write_only(cls, recv) -> bool:
    """`self.<f>...` where <f> is bound in __init__ to a fresh container of this object and is never *consulted*: every
    read of it is the receiver of a write to it (`self.f[k] += 1`, `self.f.append(x)`) or the body of a pure accessor
    (`return self.f` / `return dict(self.f)`).  Such a field cannot influence what the object computes."""
    b = recv
    while isinstance(b, ast.Subscript) or (isinstance(b, ast.Attribute) and not (isinstance(b.value, ast.Name))):
        b = b.value
    if not (isinstance(b, ast.Attribute) and isinstance(b.value, ast.Name)):
        return False
    fld = b.attr
    init = cls.methods.get("__init__")
    if init is None:
        return False
    s0 = init.args.args[0].arg
    fresh = any(isinstance(n, ast.Assign) and isinstance(n.targets[0], ast.Attribute) and n.targets[0].attr == fld and isinstance(n.targets[0].value, ast.Name) and n.targets[0].value.id == s0
                and is_mutable_literal(n.value) and not any(isinstance(x, ast.Name) and x.id in {a.arg for a in init.args.args[1:]} for x in ast.walk(n.value)) for n in ast.walk(init))
    if not fresh:
        return False
    for m in cls.methods.values():
        if not m.args.args or m.name == "__init__":
            continue
        s = m.args.args[0].arg
        body = [x for x in m.body if not (isinstance(x, ast.Expr) and isinstance(x.value, ast.Constant))]
        accessor = len(body) == 1 and isinstance(body[0], ast.Return)
        write_nodes = set()
        for n in ast.walk(m):
            if isinstance(n, (ast.AugAssign, ast.Assign)):
                for t in (n.targets if isinstance(n, ast.Assign) else [n.target]):
                    write_nodes |= {id(x) for x in ast.walk(t)}
            if isinstance(n, ast.Expr) and isinstance(n.value, ast.Call) and isinstance(n.value.func, ast.Attribute) and n.value.func.attr in ("append", "add", "update", "setdefault", "extend"):
                write_nodes |= {id(x) for x in ast.walk(n.value.func.value)}
        for n in ast.walk(m):
            if isinstance(n, ast.Attribute) and n.attr == fld and isinstance(n.value, ast.Name) and n.value.id == s and id(n) not in write_nodes and not accessor:
                return False
    return True


def _diagnostic_counter(model, rel, cls, fld) -> bool:
    """`self.<fld>` is a counter for diagnostics: bound in __init__ to a number, and every read of it in the class is its own
    update (`self.f += 1`), an argument of a call on a `logging` logger of this module, or the body of a pure accessor."""
    init = cls.methods.get("__init__")
    if init is None:
        return False
    s0 = init.args.args[0].arg
    if not any(isinstance(n, ast.Assign) and isinstance(n.targets[0], ast.Attribute) and n.targets[0].attr == fld and isinstance(n.targets[0].value, ast.Name) and n.targets[0].value.id == s0
               and isinstance(n.value, ast.Constant) and isinstance(n.value.value, (int, float)) for n in ast.walk(init)):
        return False
    fi = model.files[rel]
    loggers = {t.id for st in fi.tree.body if isinstance(st, ast.Assign) and isinstance(st.value, ast.Call) and dotted(st.value.func) in ("logging.getLogger", "getLogger")
               for t in st.targets if isinstance(t, ast.Name)}
    for m in cls.methods.values():
        if not m.args.args or m.name == "__init__":
            continue
        s = m.args.args[0].arg
        body = [x for x in m.body if not (isinstance(x, ast.Expr) and isinstance(x.value, ast.Constant))]
        accessor = len(body) == 1 and isinstance(body[0], ast.Return)
        allowed = set()
        for n in ast.walk(m):
            if isinstance(n, ast.AugAssign) and isinstance(n.target, ast.Attribute) and n.target.attr == fld and isinstance(n.value, ast.Constant):
                allowed |= {id(x) for x in ast.walk(n.target)}
            if isinstance(n, ast.Expr) and isinstance(n.value, ast.Call) and isinstance(n.value.func, ast.Attribute) and isinstance(n.value.func.value, ast.Name) and n.value.func.value.id in loggers:
                allowed |= {id(x) for a in n.value.args for x in ast.walk(a)}
        for n in ast.walk(m):
            if isinstance(n, ast.Attribute) and n.attr == fld and isinstance(n.value, ast.Name) and n.value.id == s and id(n) not in allowed and not accessor:
                return False
    return True


def _fresh_list(e) -> bool:
    if isinstance(e, (ast.List, ast.ListComp)):
        return True
    if isinstance(e, ast.Call) and isinstance(e.func, ast.Name) and e.func.id == "list":
        return True
    if isinstance(e, ast.BinOp) and isinstance(e.op, (ast.Add, ast.Mult)):
        return _fresh_list(e.left) or _fresh_list(e.right)
    return False


def check_fresh_call_args(model, col, rule, vm=None):
    """The argument list a callee starts with is its own: on every path of the CALL arm the list handed to `_Invoke` is built
    on that path (a list display / comprehension / list(..)).  `_Invoke` hands that object on as the callee's `args`, which
    STORE_ARG writes into; a list kept from an earlier execution of the call carries the callee's writes into the next one."""
    from ..paths import paths

    vm = vm or VMModel(model)
    arm = vm.arm("CALL")
    n = 0
    stale = None
    for evs, status in paths(arm.body):
        if status == "raise":
            continue
        bound = {}
        for e in evs:
            if e.kind == "stmt" and isinstance(e.node, ast.Assign) and len(e.node.targets) == 1 and isinstance(e.node.targets[0], ast.Name):
                bound[e.node.targets[0].id] = e.node.value
            nodes = [e.node] if e.kind in ("stmt", "return", "cond") else []
            for nd in nodes:
                for c in ast.walk(nd):
                    if isinstance(c, ast.Call) and last_attr(c) in ("_Invoke", "Invoke") and isinstance(c.func, ast.Attribute) and len(c.args) >= 2:
                        n += 1
                        a = c.args[1]
                        v = bound.get(a.id) if isinstance(a, ast.Name) else a
                        if v is None or not _fresh_list(v):
                            stale = stale or (c, a, v)
    col.floor(rule, "paths of the CALL arm that invoke the callee", n, 1)
    col.check(stale is None, rule, f"{VM}::__Execute CALL hands the callee a fresh argument list", "the list passed to _Invoke is built on every path that calls it",
              (f"on a path `{unparse(stale[1])}` is `{' '.join(unparse(stale[2]).split())[:60] if stale[2] is not None else 'bound outside the arm'}`" if stale else "")
              + ": the callee's parameters live in that list (store.arg writes into it), so a list kept across executions starts the next invocation with the values the previous one left",
              VM, stale[0] if stale else arm.case)


def run(model, col, tier):
    vm = VMModel(model)
    ec = vm.ec
    vmc = model.cls(VM, "VirtualMachine")
    # ---------------- R15.1 ------------------------------------------------------
    nmut = 0
    for cls in (ec, vmc):
        for m in cls.methods.values():
            if m.name in getattr(cls, "inlined_helpers", ()):
                continue  # read in place inside __Execute (vmmodel): its parameters are the arm's own values there
            selfn = m.args.args[0].arg
            params = [a.arg for a in m.args.args[1:]]
            # a name is a *value of the activation* (never a program object) if every binding of it in the method is a freshly built
            # container, a value read out of the value map / argument list / globals map, the result of one of the context's own
            # value-building methods, or another such name
            binds = {}
            for n in walk_no_nested(m):
                if isinstance(n, ast.AnnAssign) and isinstance(n.target, ast.Name) and n.value is not None:
                    n = ast.Assign(targets=[n.target], value=n.value)
                if isinstance(n, ast.Assign):
                    for t_ in n.targets:
                        if isinstance(t_, ast.Name):
                            binds.setdefault(t_.id, []).append(n.value)
                elif isinstance(n, (ast.For, ast.comprehension)):
                    for x in ast.walk(n.target):
                        if isinstance(x, ast.Name):
                            binds.setdefault(x.id, []).append(ast.Subscript(value=n.iter, slice=ast.Constant(value=0), ctx=ast.Load()))

            def activation_value(v, seen=()):
                if is_mutable_literal(v) or isinstance(v, (ast.ListComp, ast.DictComp, ast.Constant)):
                    return True
                if isinstance(v, ast.Call):
                    d = dotted(v.func) or ""
                    if d in ("copy.deepcopy", "copy.copy", "list", "dict", "zip", "enumerate", "range", "len", "int", "float", "abs", "math.floor"):
                        return True
                    if isinstance(v.func, ast.Attribute) and isinstance(v.func.value, ast.Name) and v.func.value.id == selfn:
                        return True  # self.__CreateInstance(..), self._Invoke(..), self.__CastValue(..): values, not program objects
                    return False
                if isinstance(v, ast.BinOp):
                    return activation_value(v.left, seen) or activation_value(v.right, seen)
                if isinstance(v, ast.IfExp):
                    return activation_value(v.body, seen) and activation_value(v.orelse, seen)
                if isinstance(v, ast.Subscript):
                    r_ = v
                    while isinstance(r_, ast.Subscript):
                        r_ = r_.value
                    if isinstance(r_, ast.Name):
                        return r_.id in ("localScope", "args") or r_.id in seen or (r_.id in binds and all(activation_value(b, seen + (r_.id,)) for b in binds[r_.id]))
                    if isinstance(r_, ast.Attribute):
                        return "lobalScope" in r_.attr
                    if isinstance(r_, ast.Call):
                        return activation_value(r_, seen)
                    return False
                if isinstance(v, ast.Name):
                    return v.id in ("localScope", "args") or v.id in seen or (v.id in binds and all(activation_value(b, seen + (v.id,)) for b in binds[v.id]))
                return False

            fresh = {nm for nm, vs in binds.items() if all(activation_value(v, (nm,)) for v in vs)}
            for recv, node in mutations_in(m):
                nmut += 1
                rn = root_name(recv)
                rtxt = unparse(recv)
                ok_ = False
                why = ""
                if rn in fresh:
                    ok_ = True
                elif rn in ("localScope", "args") and m.name == "__Execute":
                    ok_ = True  # the activation's own value map / argument list
                elif rn == selfn and ("__globalScope" in rtxt):
                    ok_ = True
                elif rn == selfn and m.name == "__init__":
                    ok_ = True
                elif rn == selfn and isinstance(recv, (ast.Attribute, ast.Subscript)) and _own_write_only(cls, recv):
                    ok_ = True  # a counter / log of this object that nothing but an accessor ever reads (statistics)
                else:
                    why = f"`{unparse(node)[:70]}` mutates `{rtxt}`"
                col.check(ok_, "R15.1", f"{VM}::{cls.name}.{m.name} mutates {rtxt[:40]}", "the receiver is owned by the activation / this VM",
                          why + ": the receiver is not one of the activation's own containers or this VM's globals map - it can be (part of) the linked program, which all VMs share", VM, node)
            for n in ast.walk(m):
                if isinstance(n, (ast.Assign, ast.AugAssign)):
                    for t in (n.targets if isinstance(n, ast.Assign) else [n.target]):
                        if isinstance(t, ast.Attribute):
                            r = root_name(t)
                            good = r == selfn and m.name == "__init__"
                            if not good and r == selfn and isinstance(n, ast.AugAssign) and isinstance(t.value, ast.Name) and _diagnostic_counter(model, VM, cls, t.attr):
                                good = True  # a counter that only feeds logger.debug(..): not state of the computation
                            col.check(good, "R15.1", f"{VM}::{cls.name}.{m.name} sets attribute {unparse(t)}",
                                      "attributes are only set on self in __init__",
                                      f"`{unparse(n)[:70]}` stores an attribute outside __init__ / on a foreign object: state that outlives the activation or changes the shared program", VM, n)
            # calls on program objects: only getters/properties, never SetX/Add*/Replace*/Update*/Create*
            for c in ast.walk(m):
                if isinstance(c, ast.Call) and isinstance(c.func, ast.Attribute):
                    r = root_name(c.func.value)
                    if r in ("function", "instruction", "bb", "constant", "varType", "structureType", "primitiveType") and c.func.attr.startswith(("Set", "Add", "Replace", "Update", "Create", "Register", "_Set")):
                        col.bad("R15.1", f"{VM}::{cls.name}.{m.name} calls {unparse(c.func)}", f"`{unparse(c)[:60]}` calls a mutating method of a program object", VM, c)
    col.floor("R15.1", "in-place mutations in nsl/VM.py", nmut, 10)
    # ---------------- R15.2 ------------------------------------------------------
    vinit = vmc.own_method("__init__")
    gs = [n for n in ast.walk(vinit) if isinstance(n, ast.Assign) and isinstance(n.targets[0], ast.Attribute) and "lobal" in n.targets[0].attr]
    good = len(gs) == 1 and (isinstance(gs[0].value, (ast.DictComp, ast.Dict)) or (isinstance(gs[0].value, ast.Call) and dotted(gs[0].value.func) in ("dict", "dict.fromkeys", "collections.OrderedDict", "OrderedDict")))
    col.check(good, "R15.2", f"{VM}::VirtualMachine.__init__ globals map", f"the globals map is created freshly for this VM: {unparse(gs[0].value)[:60] if gs else ''}",
              f"the globals map is bound to `{unparse(gs[0].value) if gs else None}`, not to a container created inside __init__: two VMs can share one map", VM, vinit)
    gfield = gs[0].targets[0].attr if gs else "__globalScope"
    ctx_mk = [c for c in ast.walk(vinit) if isinstance(c, ast.Call) and last_attr(c) == "ExecutionContext"]
    col.check(bool(ctx_mk) and len(ctx_mk[0].args) == 2 and unparse(ctx_mk[0].args[1]) == f"self.{gfield}" and "Functions" in unparse(ctx_mk[0].args[0]), "R15.2",
              f"{VM}::VirtualMachine.__init__ execution context", "the VM's execution context receives that same globals map", "the execution context does not receive this VM's globals map", VM, vinit)
    einit = ec.own_method("__init__")
    t = unparse(einit)
    col.check("self.__globalScope = globalScope" in t and "self.__functions = functions" in t, "R15.2", f"{VM}::ExecutionContext.__init__", "keeps the globals map and the function table it was given", None, VM, einit)
    from ..sem import alpha as _alpha15

    for meth, body in (("SetGlobal", f"self.{gfield}[p0] = p1"), ("GetGlobal", f"return self.{gfield}[p0]")):
        m = vmc.own_method(meth)
        col.check(body == _alpha15(m), "R15.2", f"{VM}::VirtualMachine.{meth}", f"addresses this VM's globals map ({body})", f"{meth} does not address this VM's globals map", VM, m)
    inv = vmc.own_method("Invoke")
    col.check(_alpha15(inv) == "return self.__ctx.Invoke(p0, **p1)", "R15.2", f"{VM}::VirtualMachine.Invoke", "runs on this VM's execution context", None, VM, inv)
    mlm = module_level_mutables(model, {VM})
    col.check(not mlm, "R15.2", f"{VM} has no module/class-level mutable state", "nothing mutable is bound at import time", f"module/class-level mutable objects: {[(n, w) for _, n, _, w in mlm]}: shared by every VM", VM, None)
    md = [x for x in mutable_defaults(model) if x[0] == VM]
    col.check(not md, "R15.2", f"{VM} has no mutable default arguments", "no default argument is a container or object",
              f"default arguments evaluated once and shared between calls/instances: {[(q, p, unparse(d)) for _, q, p, d, *_ in md]}", VM, md[0][4] if md else None)
    from ..report import Collector

    sub = Collector("C03")
    c03.run(model, sub, "quick", share=False)
    for ob in sub.obligations:
        if ob.rule in ("R03.1", "R03.2"):
            ob.rule = "R15.2"
            col.obligations.append(ob)
        elif ob.rule == "R03.3":
            # no arm changes a stored value (a global's vector, the host's argument) in place except the element/member stores
            ob.rule = "R15.1"
            col.obligations.append(ob)
    # ---------------- R15.3 ------------------------------------------------------
    writers = []
    for m in ec.methods.values():
        if m.name in getattr(ec, "inlined_helpers", ()):
            continue
        for n in ast.walk(m):
            if isinstance(n, ast.Assign):
                for tg in n.targets:
                    if isinstance(tg, ast.Subscript) and isinstance(tg.value, ast.Attribute) and tg.value.attr == "__globalScope":
                        writers.append((m, n))
            if isinstance(n, ast.Call) and isinstance(n.func, ast.Attribute) and isinstance(n.func.value, ast.Attribute) and n.func.value.attr == "__globalScope" and n.func.attr in ("clear", "update", "pop", "popitem", "setdefault"):
                writers.append((m, n))
            if isinstance(n, ast.Assign) and isinstance(n.targets[0], ast.Attribute) and n.targets[0].attr == "__globalScope" and m.name != "__init__":
                writers.append((m, n))
    store = vm.arm("STORE")
    in_store = {id(n) for st in store.body for n in ast.walk(st)}
    for m, n in writers:
        col.check(id(n) in in_store, "R15.3", f"{VM}::ExecutionContext.{m.name} writes the globals map", "the write is the STORE arm",
                  f"`{unparse(n)[:70]}` writes the globals map outside the STORE arm: globals change without the program assigning them", VM, n)
    col.floor("R15.3", "writes to the globals map", len(writers), 1)
    # the STORE/GLOBAL write is under the GLOBAL scope case and stores the stored value
    gcase = None
    for st in store.body:
        if isinstance(st, ast.Match):
            for case in st.cases:
                if "GLOBAL" in unparse(case.pattern):
                    gcase = case
    col.check(gcase is not None and "self.__globalScope[instruction.Variable] = localScope[instruction.Store.Reference]" in " ".join(unparse(ast.Module(body=gcase.body, type_ignores=[])).split()), "R15.3",
              f"{VM}::__Execute STORE GLOBAL", "globals[variable] = the stored value", "the GLOBAL case of STORE does not assign the stored value to the named global", VM, store.case)
    load = vm.arm("LOAD")
    col.check("localScope[ref] = self.__globalScope[instruction.Variable]" in " ".join(unparse(ast.Module(body=load.body, type_ignores=[])).split()), "R15.3", f"{VM}::__Execute LOAD GLOBAL", "a global load reads this VM's map", None, VM, load.case)
    # ---------------- R15.4 ------------------------------------------------------
    inplace = [opc for opc in ("STORE_ARRAY", "STORE_MEMBER") if opc in vm.arms]
    for name in ("__CreateInstance", "__CreatePrimitiveInstance", "__CreateStructureInstance"):
        m = ec.own_method(name)
        state_reads = [n for n in ast.walk(m) if isinstance(n, ast.Attribute) and isinstance(n.value, ast.Name) and n.value.id == "self"
                       and not n.attr.startswith(("__Create", "_ExecutionContext__Create"))]
        col.check(not state_reads, "R15.4", f"{VM}::ExecutionContext.{name} consults no instance state",
                  "a default instance is computed from the type alone",
                  f"`{unparse(state_reads[0]) if state_reads else ''}` is consulted: default instances come from state that outlives the declaration (a cache), so "
                  "'fresh' locals share nested objects across declarations and invocations", VM, state_reads[0] if state_reads else m)
        for n in ast.walk(m):
            if isinstance(n, ast.BinOp) and isinstance(n.op, ast.Mult) and isinstance(n.left, ast.List) and n.left.elts:
                el = n.left.elts[0]
                scalar = isinstance(el, ast.Constant)
                row_of_scalars = isinstance(el, ast.BinOp) and isinstance(el.op, ast.Mult) and isinstance(el.left, ast.List) and all(isinstance(x, ast.Constant) for x in el.left.elts)
                in_matrix = row_of_scalars and name == "__CreatePrimitiveInstance"
                col.check(scalar or in_matrix, "R15.4", f"{VM}::ExecutionContext.{name} repetition `{unparse(n)[:40]}`",
                          "only scalars (or matrix rows, which are never mutated in place) are replicated",
                          f"`{unparse(n)[:60]}` replicates one object: every element is the same array/struct, which {inplace} mutate in place (a store to one element changes all)", VM, n)
    cs = ec.own_method("__CreateStructureInstance")
    t = unparse(cs)
    from ..sem import iterations as _iterations

    per_field = any("Fields" in unparse(it) and any(isinstance(c, ast.Call) and "__CreateInstance" in unparse(c.func) for b in body for c in ast.walk(b)) for it, tgt, body, kind in _iterations(cs))
    rets_ = [r.value for r in ast.walk(cs) if isinstance(r, ast.Return) and r.value is not None]
    fresh_ret = bool(rets_) and all(isinstance(r, (ast.Dict, ast.DictComp)) or (isinstance(r, ast.Name) and any(isinstance(v, (ast.Dict, ast.DictComp)) or (isinstance(v, ast.Call) and dotted(v.func) in ("dict", "OrderedDict", "collections.OrderedDict")) for v in find_assign(cs, r.id))) for r in rets_)
    col.check(per_field and fresh_ret, "R15.4", f"{VM}::__CreateStructureInstance", "a fresh dict with one fresh instance per field", "a structure instance is not a fresh dict of fresh field instances", VM, cs)
    ci = ec.own_method("__CreateInstance")
    # (the per-dimension construction may be a nested function or a private method of the class that __CreateInstance calls)
    ci_helpers = [m_ for nm_, m_ in ec.methods.items() if m_ is not ci and any(isinstance(c, ast.Call) and last_attr(c) in (nm_, nm_.lstrip("_"), "__" + nm_.split("__")[-1]) for c in ast.walk(ci))]
    arr = [n for f_ in [ci] + ci_helpers for n in ast.walk(f_) if isinstance(n, ast.ListComp) and any(isinstance(c, ast.Call) and "__CreateInstance" in unparse(c.func) for c in ast.walk(n.elt))]
    col.check(bool(arr), "R15.4", f"{VM}::__CreateInstance array elements", "one instance is created per array element (comprehension)", "array elements are not created one by one", VM, ci)
    nv = vm.arm("NEW_VARIABLE")
    col.check(any("self.__CreateInstance(" in unparse(s) for s in nv.body), "R15.4", f"{VM}::__Execute NEW_VARIABLE", "each executed declaration creates its instance", None, VM, nv.case)
    # ---------------- R15.5 ------------------------------------------------------
    ncc = 0
    lf = model.file(LOWER)
    range_vars = {}
    for fn_ in ast.walk(lf.tree):
        if isinstance(fn_, ast.FunctionDef):
            rv_ = {n.target.id for n in ast.walk(fn_) if isinstance(n, ast.For) and isinstance(n.target, ast.Name) and isinstance(n.iter, ast.Call) and dotted(n.iter.func) == "range"}
            for c_ in ast.walk(fn_):
                if isinstance(c_, ast.Call):
                    range_vars.setdefault(id(c_), set()).update(rv_)
    for c in ast.walk(lf.tree):
        if isinstance(c, ast.Call) and last_attr(c) == "CreateConstant" and len(c.args) == 2:
            ncc += 1
            v = c.args[1]
            # an int literal, the index variable of a `for .. in range(..)` loop of the same function, or a literal node's value
            good = isinstance(v, ast.Constant) or (isinstance(v, ast.Name) and v.id in range_vars.get(id(c), set())) or unparse(v).endswith(".GetValue()")
            col.check(good, "R15.5", f"{LOWER}::CreateConstant({unparse(v)[:30]})", "the constant is an immutable scalar (literal, loop index or a literal's value)",
                      f"`{unparse(c)[:60]}`: the constant's value is not evidently an immutable scalar; constants are copied by reference into every frame", LOWER, c)
    col.floor("R15.5", "CreateConstant call sites in lowering", ncc, 4)
    pre = " ".join(unparse(ast.Module(body=vm.prologue, type_ignores=[])).split())
    holder_ = ast.Module(body=vm.prologue, type_ignores=[])
    consts_ok = False
    for it, tgt, body, kind in _iterations(holder_):
        if unparse(it).endswith(".Constants"):
            tv = unparse(tgt)
            texts = [" ".join(unparse(b).split()) for b in body]
            consts_ok = any(f"{tv}.Reference" in t_ for t_ in texts) and any(f"{tv}.Value" in t_ for t_ in texts)
    col.check(consts_ok, "R15.5", f"{VM}::__Execute constants", "constants are copied into the fresh value map by value reference", None, VM, vm.execute)
    check_fresh_call_args(model, col, "R15.5", vm)
    # ---------------- R15.6 ------------------------------------------------------
    # with optimisation on, a load of a global is only replaced by the value of the store *directly* before it in the same block
    # (= R02.7): an intervening call can assign the global, so forwarding across it reads a stale value
    from . import c02

    sub = Collector("C02")
    c02.run(model, sub, "quick", share=False)
    for ob in sub.obligations:
        if ob.rule in ("R02.7", "R02.2"):
            # R02.2: the pass removes only the forwarded load, never the store - a store to a global is an assignment later
            # invocations (and GetGlobal) observe
            ob.rule = "R15.6"
            col.obligations.append(ob)
    # a name that denotes a global in a function body is lowered to accesses of that global, on every statement of the body:
    # no parameter or local may share a global's name, and lowering looks a name up in per-function maps that are re-created
    # for every function (= R12.1 the scopes, R12.4 the lookup map) - otherwise an assignment "to the global" is a store to a
    # local that was never popped, and the global keeps its old value
    from . import c12 as _c12

    sub = Collector("C12")
    if not _IN_C12[0]:
        # (C12's rule set reaches C15 again through C11 -> C14 -> C02: the nested run does not share a second time)
        _IN_C12[0] = True
        try:
            _c12.run(model, sub, "quick")
        finally:
            _IN_C12[0] = False
        n12 = 0
        for ob in sub.obligations:
            if ob.rule in ("R12.1", "R12.4"):
                ob.detail = f"[{ob.rule}] " + (ob.detail or "")
                ob.rule = "R15.3"
                col.obligations.append(ob)
                n12 += 1
        col.floor("R15.3", "name-binding obligations shared with C12", n12, 10)
    # ---------------- R15.7 the program's globals are those of all its modules; a function body is its own statements ----
    from . import c16

    sub = Collector("C16")
    c16.run(model, sub, "quick")
    n157 = 0
    for ob in sub.obligations:
        if ob.rule == "R16.3" and "Linker.AddModule merges module.Globals" in ob.construct:
            ob.rule = "R15.7"
            col.obligations.append(ob)
            n157 += 1
    col.floor("R15.7", "linker obligations about globals shared with C16", n157, 2)
    # what an invocation writes to globals is what the source function's statements write: lowering a function adds no
    # instruction of its own (an implicit store in every entry point would reset state between invocations)
    from ..paths import paths as _p157, calls_on_path as _c157

    LOWER_ = "nsl/passes/LowerToIR.py"
    lvf = model.cls(LOWER_, "LowerToIRVisitor").own_method("v_Function")
    if lvf is None:
        raise AnchorMissing(f"{LOWER_}::LowerToIRVisitor.v_Function")
    fpar = lvf.args.args[1].arg
    adds = [c for c in ast.walk(lvf) if isinstance(c, ast.Call) and last_attr(c) in ("AddInstruction", "AddInstructionBefore", "AddInstructionAfter", "SetStore")]
    visits = [c for c in ast.walk(lvf) if isinstance(c, ast.Call) and last_attr(c) in ("v_Visit", "v_Generic", "AcceptVisitor")]
    foreign = [unparse(c)[:60] for c in visits if not (unparse(c.func.value).startswith(fpar + ".") or unparse(c.func.value) == fpar or (c.args and unparse(c.args[0]).startswith(fpar + ".")))]
    col.check(not adds and not foreign, "R15.7", f"{LOWER_}::v_Function emits only the function's body", "no instruction is added by the function handler itself; only parts of the function node are visited",
              f"v_Function adds instructions itself ({[unparse(c)[:50] for c in adds][:2]}) or lowers something that is not part of the function ({foreign[:2]}): every invocation of such a function "
              "executes stores the source function does not contain (globals are re-initialised on each call)", LOWER_, (adds + visits + [lvf])[0])
