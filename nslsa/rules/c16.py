"""C16 Separately compiled, imported and linked modules behave like one program."""
from __future__ import annotations

import ast

from ..effects import iteration_mutation_conflicts, transitive_mutations
from ..grammar import Grammar, PARSER
from ..model import AnalysisError, AnchorMissing, dotted, find_assign, last_attr, mangle, unparse
from ..paths import paths, calls_on_path, cond_atoms
from .c08 import select_stmts, p_index

TITLE = "imports, metadata, loader and linker"
LEVEL = "other"
ASTF = "nsl/ast/__init__.py"
IR = "nsl/LinearIR.py"
LOWER = "nsl/passes/LowerToIR.py"
CT = "nsl/passes/ComputeTypes.py"
EXPLANATION = (
    "R16.1 the eight accumulating `module` productions keep the module (p[0] = p[1] / a new Module) and add the *new item's* "
    "symbol with the Add* method of its kind; the import set is forwarded from the AST to the IR module and to the linker. "
    "R16.2 no loop iterates a container attribute that its own body (transitively through self.method() calls) mutates. "
    "R16.3 every path from Link to loader.Load(name) passes a membership/difference test against a container that also "
    "records the name. R16.4 every insertion into the linker's function/global tables is preceded by a not-in test that "
    "rejects. R16.5 for every Metadata key the writer's value is a sequence of the objects the reader iterates and registers "
    "by GetName(). R16.6 module files are written and read with the same protocol. R16.3 also: the linker merges every "
    "module it loads, enters every entry of a module's tables or fails, calls no state-changing method of an IR object, and "
    "the runner looks the entry point up in the linked program. R16.8 the module interface (Metadata) is written while "
    "lowering only and nothing is taken out of a module's tables afterwards."
)
NOT_DECIDED = "behavioural equality of the linked and the monolithic program; a module that is both added directly and imported by name (modules do not know their own name)"
ASSUMPTIONS = ["a module is identified by the name it is imported under"]

KIND_OF_SYMBOL = {"function": "AddFunction", "declaration_statement": "AddDeclaration", "type_definition": "AddType", "import_statement": "AddImport"}


MODULE_TABLES = ("Functions", "Globals", "Imports", "Metadata")
_REMOVERS = ("pop", "popitem", "clear", "remove", "discard", "difference_update", "intersection_update")


def table_removals(tree):
    """[(table, node)] statements that take an entry out of a module's Functions / Globals / Imports / Metadata table,
    directly or through a local alias of the table."""
    from ..sem import local_env, resolve

    out, seen = [], set()
    funcs = [f for f in ast.walk(tree) if isinstance(f, (ast.FunctionDef, ast.AsyncFunctionDef))]
    scopes = [(f, local_env(f, allow_impure=True)) for f in funcs] + [(tree, {})]
    for scope, env in scopes:
        for x in ast.walk(scope):
            if id(x) in seen:
                continue
            hit = None
            if isinstance(x, ast.Delete):
                for t in x.targets:
                    base = resolve(t.value, env) if isinstance(t, ast.Subscript) else None
                    if isinstance(base, ast.Attribute) and base.attr in MODULE_TABLES:
                        hit = base.attr
            elif isinstance(x, ast.Call) and isinstance(x.func, ast.Attribute) and x.func.attr in _REMOVERS:
                base = resolve(x.func.value, env)
                if isinstance(base, ast.Attribute) and base.attr in MODULE_TABLES:
                    hit = base.attr
            if hit:
                seen.add(id(x))
                out.append((hit, x))
    return out


def ir_writer_methods(model):
    """{method name: class} of the methods of the IR classes that write their object's state"""
    from ..effects import direct_mutations, rebinds

    skip = {"Linker", "Program", "ModuleLoader", "FilesystemModuleLoader", "MemoryModuleLoader", "InstructionPrinter"}
    writers = {}
    for ci in model.classes.values():
        if ci.file != IR or ci.name in skip or "." in ci.qualname:
            continue
        for name, m in ci.methods.items():
            if name.startswith("__") and name.endswith("__"):
                continue
            if direct_mutations(ci, m) or rebinds(ci, m):
                writers.setdefault(name, ci.name)
    if "AddInstruction" not in writers and "SetReference" not in writers:
        raise AnalysisError("the IR writer-method table is empty (expected e.g. AddInstruction / SetReference)")
    return writers


def check_linker_reads_only(model, col, rule):
    """Linking does not change the modules it is given: a module object can be linked into several programs (and stays the
    compiled module its file holds), so the linker may read a module's tables but must not call a state-changing method of
    an IR object or write one of its attributes (e.g. binding call targets *on the instructions*: the last Link() wins)."""
    from ..state import root_name

    writers = ir_writer_methods(model)
    lk = model.cls(IR, "Linker")
    n = 0
    for m in lk.methods.values():
        selfn = m.args.args[0].arg if m.args.args else "self"
        for c in ast.walk(m):
            if isinstance(c, ast.Call) and isinstance(c.func, ast.Attribute):
                n += 1
                recv = c.func.value
                if isinstance(recv, ast.Name) and recv.id == selfn:
                    continue
                if c.func.attr in writers and c.func.attr not in lk.methods:
                    col.bad(rule, f"{IR}::Linker.{m.name} changes a linked module", f"`{' '.join(unparse(c).split())[:80]}` calls {writers[c.func.attr]}.{c.func.attr}, which writes the object's state: "
                            "the module's IR is shared by every program it is linked into (and is what the module file holds), so a later Link() changes what an earlier program runs", IR, c)
            elif isinstance(c, (ast.Assign, ast.AugAssign)):
                for t in (c.targets if isinstance(c, ast.Assign) else [c.target]):
                    if isinstance(t, ast.Attribute) and root_name(t) != selfn:
                        col.bad(rule, f"{IR}::Linker.{m.name} changes a linked module", f"`{' '.join(unparse(c).split())[:80]}` writes an attribute of an object that is not the linker's own", IR, c)
    col.floor(rule, "method calls in the linker", n, 5)
    col.ok(rule, f"{IR}::Linker only reads the modules it links", f"{n} calls in Linker; none is one of the {len(writers)} state-changing methods of the IR classes")


def check_tables_keep_entries(model, col, rule):
    """A lowered module keeps every function, global and import it has: importers, the linker and the module file all read
    these tables, so an entry taken out after lowering (e.g. a function that looks unused *within this module*) is missing
    for every other module that calls it."""
    probe = ast.parse("def f(m):\n    t = m.Functions\n    for n in list(t):\n        del t[n]\n    m.Globals.pop('g')\n")
    if len(table_removals(probe)) != 2:
        raise AnalysisError("R16.8: the table-removal detector does not fire on its positive example")
    n = 0
    for rel, fi in sorted(model.files.items()):
        if not (rel.startswith("nsl/") or rel in ("nslc.py", "nslr.py")):
            continue
        n += 1
        hits = table_removals(fi.tree)
        col.check(not hits, rule, f"{rel}:: removes nothing from a module's tables", "no del / pop / clear on Functions, Globals, Imports or Metadata",
                  (f"`{' '.join(unparse(hits[0][1]).split())[:80]}` takes entries out of `{hits[0][0]}`" if hits else "") + ": what this module defines is no longer what other modules can "
                  "import and link against, and the module file no longer holds what was compiled", rel, hits[0][1] if hits else fi.tree)
    col.floor(rule, "files scanned for table removals", n, 20)


def run(model, col, tier):
    G = Grammar(model)
    # ---------------- R16.1 -------------------------------------------------------
    n = 0
    for P in G.prods_named("module"):
        stmts, pn = select_stmts(P.func, len(P.syms))
        key = f"{PARSER}::{P.func.name}[{P}]"
        item_idx = len(P.syms)
        item = P.syms[-1]
        want_add = KIND_OF_SYMBOL.get(item)
        if want_add is None:
            col.bad("R16.1", key, f"unknown module item `{item}`", PARSER, P.func)
            continue
        n += 1
        p0 = [s for s in stmts if isinstance(s, ast.Assign) and p_index(s.targets[0], pn) == 0]
        if len(P.syms) == 2:
            okp0 = len(p0) == 1 and p_index(p0[0].value, pn) == 1
            p0txt = "p[0] = p[1] (the module built so far)"
        else:
            okp0 = len(p0) == 1 and isinstance(p0[0].value, ast.Call) and last_attr(p0[0].value) == "Module"
            p0txt = "p[0] = a new Module"
        adds = [c for s in stmts for c in ast.walk(s) if isinstance(c, ast.Call) and isinstance(c.func, ast.Attribute) and c.func.attr.startswith("Add")]
        okadd = len(adds) == 1 and adds[0].func.attr == want_add and adds[0].args and p_index(adds[0].args[0], pn) == item_idx and p_index(adds[0].func.value, pn) == 0
        got = f"{unparse(adds[0])}" if adds else "no Add* call"
        col.check(okp0 and okadd, "R16.1", key, f"{p0txt}; p[0].{want_add}(p[{item_idx}])",
                  f"action does `{got}`; expected {p0txt} and p[0].{want_add}(p[{item_idx}]) (the `{item}` just parsed)"
                  + (": the item is lost and a wrong object is recorded" if adds and adds[0].args and p_index(adds[0].args[0], pn) != item_idx else ""), PARSER, P.func)
    col.floor("R16.1", "accumulating module productions", n, 8)
    for P in G.prods_named("import_statement"):
        stmts, pn = select_stmts(P.func, len(P.syms))
        si = P.syms.index("string_literal") + 1 if "string_literal" in P.syms else None
        ok_ = any(isinstance(s, ast.Assign) and p_index(s.targets[0], pn) == 0 and p_index(s.value, pn) == si for s in stmts)
        col.check(ok_, "R16.1", f"{PARSER}::{P.func.name}[{P}]", "the import statement's value is the module name", "the import statement does not yield the quoted module name", PARSER, P.func)
    for P in G.prods_named("string_literal"):
        stmts, pn = select_stmts(P.func, 1)
        ok_ = any(isinstance(s, ast.Assign) and unparse(s.value) == f"{pn}[1][1:-1]" for s in stmts)
        col.check(ok_, "R16.1", f"{PARSER}::{P.func.name}[{P}]", "quotes are stripped from the module name", "the string literal's quotes are not stripped exactly", PARSER, P.func)
    am = model.cls(ASTF, "Module")
    ai = am.own_method("AddImport")
    gi = am.own_method("GetImports")
    fld = [c.func.value.attr for c in ast.walk(ai) if isinstance(c, ast.Call) and last_attr(c) in ("add", "append")]
    ret = [r.value.attr for r in ast.walk(gi) if isinstance(r, ast.Return) and isinstance(r.value, ast.Attribute)]
    col.check(bool(fld) and fld == ret, "R16.1", f"{ASTF}::Module.AddImport/GetImports", f"imports are recorded in and read from `{fld[0] if fld else None}`",
              f"AddImport stores into {fld} but GetImports returns {ret}", ASTF, ai)
    # a name imported twice is one import: the AST module keeps a set (or the typing pass de-duplicates before loading)
    ainit = am.own_method("__init__")
    ival = [n.value for n in ast.walk(ainit) if isinstance(n, ast.Assign) and isinstance(n.targets[0], ast.Attribute) and fld and n.targets[0].attr == fld[0]]
    is_set = bool(ival) and all(isinstance(v, ast.Set) or (isinstance(v, ast.Call) and dotted(v.func) in ("set", "frozenset")) for v in ival)
    from ..sem import expand_helpers as _xh161

    ctm0 = _xh161(model, model.cls(CT, "ComputeTypeVisitor"), model.cls(CT, "ComputeTypeVisitor").own_method("v_Module"),
                  skip=("v_", "__RegisterFunction", "_ComputeTypeVisitor__RegisterFunction"))
    imp0 = [x for x in ast.walk(ctm0) if isinstance(x, ast.For) and "GetImports" in unparse(x.iter)]
    dedup = bool(imp0) and any(unparse(imp0[0].iter).startswith(p) for p in ("set(", "sorted(set(", "dict.fromkeys(", "frozenset("))
    col.check(is_set or dedup, "R16.1", f"{ASTF}::Module imports are a set", "an import statement repeated in a module is loaded once",
              f"imports are kept in `{unparse(ival[0]) if ival else None}` and the typing pass loads every entry: a module that imports the same name twice registers the imported functions "
              "twice (every call to them is ambiguous) and trips the duplicate-type assertion", ASTF, ainit)
    lvm = model.cls(LOWER, "LowerToIRVisitor").own_method("v_Module")
    fw = [lp for lp in ast.walk(lvm) if isinstance(lp, ast.For) and "GetImports" in unparse(lp.iter)]
    okfw = bool(fw) and any(isinstance(c, ast.Call) and last_attr(c) == "AddImport" and c.args and unparse(c.args[0]) == unparse(fw[0].target) for c in ast.walk(fw[0]))
    col.check(okfw, "R16.1", f"{LOWER}::v_Module forwards imports", "every AST import is added to the IR module", "the AST module's imports are not all recorded on the IR module: the linker never loads them", LOWER, lvm)
    im = model.cls(IR, "Module")
    ia = im.own_method("AddImport")
    ip = im.own_method("Imports")
    fld = [c.func.value.attr for c in ast.walk(ia) if isinstance(c, ast.Call) and last_attr(c) in ("add", "append")]
    ret = [r.value.attr for r in ast.walk(ip) if isinstance(r, ast.Return) and isinstance(r.value, ast.Attribute)]
    col.check(bool(fld) and fld == ret and unparse([c for c in ast.walk(ia) if isinstance(c, ast.Call)][0].args[0]) == ia.args.args[1].arg, "R16.1", f"{IR}::Module.AddImport/Imports",
              "IR imports are recorded and exposed", f"AddImport stores into {fld} but Imports returns {ret}", IR, ia)
    lk = model.cls(IR, "Linker")
    addm = lk.own_method("AddModule")
    if addm is not None:
        # a private helper that merges one table is read in place
        from ..sem import expand_helpers as _xh16

        addm = _xh16(model, lk, addm)
    upd = [c for c in ast.walk(addm) if isinstance(c, ast.Call) and last_attr(c) in ("update", "extend") and c.args and "Imports" in unparse(c.args[0])]
    col.check(bool(upd), "R16.1", f"{IR}::Linker.AddModule collects imports", "the module's imports are added to the pending imports", "the linker does not collect a module's imports", IR, addm)
    pending = upd[0].func.value.attr if upd else None
    # ---------------- R16.2 -------------------------------------------------------
    conflicts = iteration_mutation_conflicts(model)
    loops = 0
    for cls in model.classes.values():
        for m in cls.methods.values():
            for x in ast.walk(m):
                if isinstance(x, ast.For) and isinstance(x.iter, (ast.Attribute, ast.Call)) and "self." in unparse(x.iter):
                    loops += 1
    col.note("R16.2", {"loops over self containers analysed": loops})
    col.floor("R16.2", "loops over self containers", loops, 10)
    for cls, m, node, attr, via in conflicts:
        col.bad("R16.2", f"{cls.file}::{cls.qualname}.{m.name} iterates {attr}",
                f"the loop over `{unparse(node.iter)}` mutates that container {via}: RuntimeError 'changed size during iteration' or skipped elements", cls.file, node)
    if not conflicts:
        col.ok("R16.2", "no container is mutated while it is iterated", f"{loops} loops over self containers, none mutates its own container (transitively)")
    # ---------------- R16.3 -------------------------------------------------------
    link = lk.own_method("Link")
    if link is not None:
        # private helpers of the work-list loop (`__TakePendingImports`, `__LoadImport`) are read in place
        from ..sem import expand_helpers as _xh163

        link = _xh163(model, lk, link, skip=("v_", "AddModule"))
    loads = [c for c in ast.walk(link) if isinstance(c, ast.Call) and last_attr(c) == "Load"]
    col.floor("R16.3", "loader.Load call sites in Link", len(loads), 1)
    check_linker_reads_only(model, col, "R16.3")
    # the runner looks the entry point up in the *linked program* - a function of an imported module is as good an entry
    # point as one of the root module
    nslr_run = model.func("nslr.py", "run")
    from ..sem import expand_module_helpers as _xmh163

    nslr_run = _xmh163(model, "nslr.py", nslr_run)  # e.g. an extracted `_LinkProgram(name)` is read in place
    progs = {t.id for n in ast.walk(nslr_run) if isinstance(n, ast.Assign) and isinstance(n.value, ast.Call) and last_attr(n.value) == "Link" for t in n.targets if isinstance(t, ast.Name)}
    lookups = []
    for n in ast.walk(nslr_run):
        tbl = None
        if isinstance(n, ast.Subscript) and isinstance(n.value, ast.Attribute) and n.value.attr == "Functions" and "FUNCTION" in unparse(n.slice):
            tbl = n.value.value
        elif isinstance(n, ast.Call) and last_attr(n) == "get" and isinstance(n.func.value, ast.Attribute) and n.func.value.attr == "Functions" and n.args and "FUNCTION" in unparse(n.args[0]):
            tbl = n.func.value.value
        elif isinstance(n, ast.Compare) and len(n.ops) == 1 and isinstance(n.ops[0], (ast.In, ast.NotIn)) and "FUNCTION" in unparse(n.left) \
                and isinstance(n.comparators[0], ast.Attribute) and n.comparators[0].attr == "Functions":
            tbl = n.comparators[0].value
        if tbl is not None:
            lookups.append((n, unparse(tbl)))
    wrong = [(n, t) for n, t in lookups if t not in progs]
    col.check(bool(lookups) and not wrong, "R16.3", "nslr.py::run finds the entry point in the linked program", f"{len(lookups)} lookup(s) by the function's name, all in {sorted(progs)}",
              (f"`{' '.join(unparse(wrong[0][0]).split())[:70]}` looks the function up in `{wrong[0][1]}`, which is not the result of Link()" if wrong else "no lookup of the entry point found")
              + ": a function defined in an imported module is reported as not found although the linked program has it", "nslr.py", wrong[0][0] if wrong else nslr_run)
    for c in loads:
        namev = c.args[0]
        if not isinstance(namev, ast.Name):
            col.bad("R16.3", f"{IR}::Linker.Link load-once", f"cannot trace the module name `{unparse(namev)}`", IR, c)
            continue
        # (a) records: some self container gets .add(name) / update
        recorded = set()
        for x in ast.walk(link):
            if isinstance(x, ast.Call) and last_attr(x) in ("add", "append") and x.args and unparse(x.args[0]) == namev.id and isinstance(x.func.value, ast.Attribute):
                recorded.add(x.func.value.attr)
            if isinstance(x, ast.Call) and last_attr(x) == "update" and isinstance(x.func.value, ast.Attribute):
                recorded.add(x.func.value.attr)
        # (b) tested: membership guard on the name, or the iterable was formed by set difference with the container
        tested = set()
        for x in ast.walk(link):
            if isinstance(x, ast.Compare) and isinstance(x.ops[0], (ast.In, ast.NotIn)) and unparse(x.left) == namev.id and isinstance(x.comparators[0], ast.Attribute):
                tested.add(x.comparators[0].attr)
            if isinstance(x, ast.BinOp) and isinstance(x.op, ast.Sub) and isinstance(x.right, ast.Attribute):
                tested.add(x.right.attr)
            if isinstance(x, ast.Call) and last_attr(x) == "difference" and x.args and isinstance(x.args[0], ast.Attribute):
                tested.add(x.args[0].attr)
        mem = (recorded & tested) - {pending}
        col.check(bool(mem), "R16.3", f"{IR}::Linker.Link load-once",
                  f"a name is loaded only if it is not in `{sorted(mem)[0] if mem else ''}`, which records every loaded name",
                  f"no memory of loaded modules guards loader.Load({namev.id}) (recorded in {sorted(recorded)}, tested against {sorted(tested)}): a module imported by two modules "
                  "is loaded twice and its functions collide", IR, c)
        if mem:
            a = sorted(mem)[0]
            init = lk.own_method("__init__")
            inits = [x for x in ast.walk(init) if isinstance(x, ast.Assign) and isinstance(x.targets[0], ast.Attribute) and x.targets[0].attr == a]
            resets = [x for x in ast.walk(link) if isinstance(x, ast.Assign) and isinstance(x.targets[0], ast.Attribute) and x.targets[0].attr == a]
            col.check(bool(inits) and not resets, "R16.3", f"{IR}::Linker loaded-set lifetime", f"`{a}` lives as long as the linker and is never reset in Link",
                      f"`{a}` is re-initialised inside Link: names loaded earlier are forgotten", IR, link)
    # the worklist must drain: a loop that continues while pending imports exist
    wl = [x for x in ast.walk(link) if isinstance(x, ast.While)]
    drains = any(pending and pending in unparse(w.test) for w in wl)
    col.check(drains, "R16.3", f"{IR}::Linker.Link processes imports of imports",
              "imports are processed until none is pending (loading a module can add imports)",
              "Link makes a single pass over the pending imports: imports of imported modules are not loaded", IR, link)
    # within one round, the pending set may be reset only *before* modules are added (AddModule adds their imports to it)
    for w in wl:
        evs_ = []
        for n in ast.walk(w):
            if isinstance(n, ast.Assign) and isinstance(n.targets[0], ast.Attribute) and n.targets[0].attr == pending:
                evs_.append((n.lineno, "reset", n))
            elif isinstance(n, ast.Call) and last_attr(n) == "clear" and isinstance(n.func.value, ast.Attribute) and n.func.value.attr == pending:
                evs_.append((n.lineno, "reset", n))
            elif isinstance(n, ast.Call) and last_attr(n) == "AddModule":
                evs_.append((n.lineno, "add", n))
        evs_.sort(key=lambda t: t[0])
        kinds_ = [k for _, k, _ in evs_]
        late = "add" in kinds_ and "reset" in kinds_[kinds_.index("add"):]
        col.check(not late, "R16.3", f"{IR}::Linker.Link keeps imports discovered during a round",
                  "the pending set is reset before the round's modules are added, so their imports stay pending",
                  "the pending-import set is reset after AddModule has added the imports of the modules loaded in this round: imports of imported modules are discarded and never loaded", IR, w)
        # ... and every round makes progress: the pending set is emptied / shrunk inside the loop
        shrinks = any(k == "reset" for _, k, _ in evs_) or any(
            (isinstance(n, ast.Call) and last_attr(n) in ("pop", "discard", "remove", "difference_update") and isinstance(n.func.value, ast.Attribute) and n.func.value.attr == pending)
            or (isinstance(n, ast.AugAssign) and isinstance(n.op, ast.Sub) and isinstance(n.target, ast.Attribute) and n.target.attr == pending) for n in ast.walk(w))
        if pending and pending in unparse(w.test):
            col.check(shrinks, "R16.3", f"{IR}::Linker.Link work-list makes progress", "names taken from the pending set are removed from it",
                      f"the loop runs while `{pending}` is non-empty but never removes anything from it: Link does not terminate as soon as one import exists", IR, w)
    # both tables of every added module reach the program
    merged = {}
    for lp_ in [n for n in ast.walk(addm) if isinstance(n, ast.For)]:
        src_ = unparse(lp_.iter)
        for st_ in ast.walk(lp_):
            if isinstance(st_, ast.Assign) and isinstance(st_.targets[0], ast.Subscript) and isinstance(st_.targets[0].value, ast.Attribute):
                for what in ("Functions", "Globals"):
                    if f".{what}" in src_:
                        merged[what] = st_.targets[0].value.attr
    # ... for every module that is added (linked or loaded for an import): the merge loops sit on every returning path
    for what in ("Functions", "Globals"):
        if what not in merged:
            continue
        skipping = []
        for evs, status in paths(addm.body, loop_iters=(0, 1)):
            if status == "raise":
                continue
            if not any(e.kind == "loop" and isinstance(e.node, ast.For) and f".{what}" in unparse(e.node.iter) for e in evs):
                from ..paths import cond_atoms as _ca163

                skipping.append([(k[:40], v) for k, v in _ca163(evs).items()][:3])
        col.check(not skipping, "R16.3", f"{IR}::Linker.AddModule merges module.{what} unconditionally", f"the merge of module.{what} is on every returning path",
                  f"under {skipping[0] if skipping else ''} AddModule returns without entering the module's {what}: modules added that way (e.g. those loaded for an import) "
                  f"contribute no {what.lower()} to the program, so the VM has no slot for them", IR, addm)
    for what in ("Functions", "Globals"):
        col.check(what in merged, "R16.3", f"{IR}::Linker.AddModule merges module.{what}", f"every entry of module.{what} is entered into the linker's table",
                  f"AddModule does not enter the module's {what} into the linker's table: {what.lower()} of a linked or imported module are missing from the program", IR, addm)
    # the linker's own fields all exist (a missing one only shows when an import is actually loaded)
    init_l = lk.own_method("__init__")
    stored = {n.targets[0].attr for n in ast.walk(init_l) if isinstance(n, ast.Assign) and isinstance(n.targets[0], ast.Attribute)} | \
             {n.target.attr for n in ast.walk(init_l) if isinstance(n, ast.AnnAssign) and n.value is not None and isinstance(n.target, ast.Attribute)}
    for mname_, m_ in lk.methods.items():
        for n in ast.walk(m_):
            if isinstance(n, ast.Attribute) and isinstance(n.value, ast.Name) and n.value.id == "self" and n.attr.startswith("__") and not n.attr.endswith("__") and isinstance(n.ctx, ast.Load):
                if lk.find_method(n.attr) is not None or lk.find_method(mangle(lk.name, n.attr)) is not None:
                    continue  # a private method, not a field
                col.check(n.attr in stored, "R16.3", f"{IR}::Linker.{mname_} reads self.{n.attr}", "initialised in __init__",
                          f"`self.{n.attr}` is read in Linker.{mname_} but never initialised: AttributeError as soon as this path runs (e.g. the first import that is loaded)", IR, n)
    addcalls = [c for c in ast.walk(link) if isinstance(c, ast.Call) and last_attr(c) == "AddModule"]
    from ..sem import local_env as _le16, rtext as _rt16

    link_env = _le16(link, allow_impure=True)
    col.check(bool(addcalls) and any("Load" in _rt16(c.args[0], link_env) for c in addcalls if c.args), "R16.3", f"{IR}::Linker.Link adds what it loads", "self.AddModule(loader.Load(name))", None, IR, link)
    ret = [unparse(r.value) for r in ast.walk(link) if isinstance(r, ast.Return)]
    col.check(len(ret) == 1 and ret[0].startswith("Program(self.__functions, self.__globals"), "R16.3", f"{IR}::Linker.Link result", "Program(functions, globals)", f"returns {ret}", IR, link)
    # ---------------- R16.4 -------------------------------------------------------
    ins = 0
    for evs, status in paths(addm.body):
        guards = set()
        for e in evs:
            if e.kind == "stmt" and isinstance(e.node, ast.Assert):
                t = e.node.test
                if isinstance(t, ast.Compare) and isinstance(t.ops[0], ast.NotIn):
                    guards.add((unparse(t.left), unparse(t.comparators[0])))
            if e.kind == "cond" and isinstance(e.node, ast.Compare) and isinstance(e.node.ops[0], (ast.In, ast.NotIn)):
                if (isinstance(e.node.ops[0], ast.NotIn)) == e.val:
                    guards.add((unparse(e.node.left), unparse(e.node.comparators[0])))
            if e.kind == "loop":
                guards = set()
            if e.kind == "stmt" and isinstance(e.node, ast.Assign) and isinstance(e.node.targets[0], ast.Subscript):
                t = e.node.targets[0]
                if isinstance(t.value, ast.Attribute) and t.value.attr in ("__functions", "__globals"):
                    ins += 1
                    col.check((unparse(t.slice), unparse(t.value)) in guards, "R16.4", f"{IR}::Linker.AddModule insertion into {t.value.attr}",
                              "preceded by a not-in test that rejects a duplicate", f"`{unparse(e.node)}` is not guarded by a not-in test: a second definition silently replaces the first", IR, e.node)
    col.floor("R16.4", "table insertions in AddModule", ins, 2)
    # ... and every entry is either entered or the link fails: no path of a merge loop's body leaves an entry out (first-wins
    # `setdefault`, a `continue` for some names), otherwise which definition a program gets depends on the order of linking
    for lp_ in [n for n in ast.walk(addm) if isinstance(n, ast.For)]:
        what = next((w for w in ("Functions", "Globals") if f".{w}" in unparse(lp_.iter)), None)
        if what is None:
            continue
        left_out = None
        for evs, status in paths(lp_.body):
            if status == "raise":
                continue
            stored = any(e.kind == "stmt" and isinstance(e.node, ast.Assign) and isinstance(e.node.targets[0], ast.Subscript) and isinstance(e.node.targets[0].value, ast.Attribute)
                         and e.node.targets[0].value.attr == merged.get(what) for e in evs)
            if not stored:
                left_out = left_out or [(k[:50], v) for k, v in cond_atoms(evs).items()][:3] or ["<unconditionally>"]
        col.check(left_out is None, "R16.4", f"{IR}::Linker.AddModule enters every entry of module.{what}", "each entry is stored or the duplicate test fails",
                  f"under {left_out} an entry of module.{what} is not stored (and nothing is raised): two modules that both define it link to whichever was added first", IR, lp_)
    # ---------------- R16.5 -------------------------------------------------------
    ctm = ctm0  # v_Module of the type pass, private helpers read in place
    reads = {}
    from ..sem import local_env as _le165, resolve as _rs165

    ct_env, lw_env = _le165(ctm, allow_impure=True), _le165(lvm, allow_impure=True)
    for x in ast.walk(ctm):
        it = _rs165(x.iter, ct_env) if isinstance(x, ast.For) else None
        if isinstance(it, ast.Subscript) and "Metadata" in unparse(_rs165(it.value, ct_env)) and isinstance(it.slice, ast.Constant):
            reads[it.slice.value] = x
    writes = {}
    for x in ast.walk(lvm):
        if isinstance(x, ast.Assign) and isinstance(x.targets[0], ast.Subscript) and "Metadata" in unparse(_rs165(x.targets[0].value, lw_env)) and isinstance(x.targets[0].slice, ast.Constant):
            writes[x.targets[0].slice.value] = x
    col.floor("R16.5", "metadata keys read by the importer", len(reads), 2)
    expect_src = {"functions": "GetFunctions", "types": "GetTypes"}
    for key, loop in sorted(reads.items()):
        w = writes.get(key)
        ck = f"{LOWER}::v_Module Metadata[{key!r}] vs {CT}::v_Module"
        if w is None:
            col.bad("R16.5", ck, f"the importer reads Metadata[{key!r}] but lowering never writes it", LOWER, lvm)
            continue
        v = w.value
        regs = [c for c in ast.walk(loop) if isinstance(c, ast.Call) and last_attr(c).startswith("Register")]
        uses_getname = any("GetName()" in unparse(c) for c in regs)
        seq = isinstance(v, (ast.ListComp, ast.List, ast.Tuple)) or (isinstance(v, ast.Call) and dotted(v.func) in ("list", "tuple"))
        elt = unparse(v.elt) if isinstance(v, ast.ListComp) else ""
        srcit = unparse(v.generators[0].iter) if isinstance(v, ast.ListComp) else ""
        good = seq and elt.endswith(".GetType()") and expect_src.get(key, "") in srcit and uses_getname
        why = ""
        if isinstance(v, (ast.Dict, ast.DictComp)):
            why = "the writer stores a dict; the reader iterates it (its keys, plain strings) and calls GetName() on each element"
        elif not seq:
            why = f"the writer stores `{unparse(v)[:60]}`, not a sequence of type objects"
        elif expect_src.get(key, "") not in srcit:
            why = f"the writer enumerates `{srcit}`, not the module's {key}"
        col.check(good, "R16.5", ck, f"writer stores [x.GetType() for x in {srcit}], reader registers each by GetName()", why or "writer and reader disagree", LOWER, w)
    for key in writes:
        col.check(key in reads, "R16.5", f"{LOWER}::v_Module Metadata[{key!r}] is consumed", "written key is read by the importer", f"Metadata[{key!r}] is written but never read", LOWER, writes[key])
    imp = [x for x in ast.walk(ctm) if isinstance(x, ast.For) and "GetImports" in unparse(x.iter)]
    okimp = bool(imp) and any(isinstance(c, ast.Call) and last_attr(c) == "Load" and unparse(c.args[0]) == unparse(imp[0].target) for c in ast.walk(imp[0]))
    col.check(okimp, "R16.5", f"{CT}::v_Module loads every import", "for each import the module file is loaded and its metadata registered", None, CT, ctm)
    # imports are registered before the module's own functions are typed
    order = []
    for st in ctm.body:
        t = unparse(st)
        if "GetImports" in t:
            order.append("imports")
        elif "__RegisterFunction" in t:
            order.append("register")
        elif isinstance(st, ast.For) and "GetFunctions" in t and "v_Visit" in t:
            order.append("visit")
    col.check(order == ["imports", "register", "visit"], "R16.5", f"{CT}::v_Module order", "imports, then register all functions, then type the bodies",
              f"order is {order}", CT, ctm)
    # ... and before anything of the module itself is typed: its struct types and globals may name imported types
    own = [st for st in ctm.body if isinstance(st, ast.For) and any(g in unparse(st.iter) for g in ("GetTypes", "GetDeclarations", "GetFunctions"))]
    early = [st for st in own if imp and st.lineno < imp[0].lineno]
    col.check(bool(imp) and bool(own) and not early, "R16.5", f"{CT}::v_Module registers imports before the module's own items", "the import loop precedes the loops over types, globals and functions",
              f"`for {unparse(early[0].target) if early else ''} in {unparse(early[0].iter) if early else ''}` runs before the imports are registered: an own struct field or global of an imported type is unknown "
              "at that point (UnknownTypeException), although the same text in one module compiles", CT, early[0] if early else ctm)
    # ---------------- R16.7 the shared default loader is stateless ---------------------
    from ..state import is_mutable_literal as _iml167

    def _state_of(ci_):
        """attributes of a class that can differ between two moments of one object's life: stored outside __init__, bound to a
        container in __init__, or written through (subscript store / mutating call).  Settings copied from constructor
        parameters (`self.__extension = extension`) are configuration, not state."""
        out = set()
        for mname, m in ci_.methods.items():
            if not m.args.args:
                continue
            s_ = m.args.args[0].arg
            for n in ast.walk(m):
                tg = n.targets if isinstance(n, ast.Assign) else [n.target] if isinstance(n, (ast.AugAssign, ast.AnnAssign)) else []
                for t in tg:
                    b = t
                    sub = False
                    while isinstance(b, ast.Subscript):
                        b, sub = b.value, True
                    if isinstance(b, ast.Attribute) and isinstance(b.value, ast.Name) and b.value.id == s_:
                        val = getattr(n, "value", None)
                        if mname != "__init__" or sub or isinstance(n, ast.AugAssign) or (val is not None and _iml167(val)):
                            out.add(b.attr)
                if isinstance(n, ast.Call) and isinstance(n.func, ast.Attribute) and n.func.attr in ("append", "add", "update", "setdefault", "pop", "clear", "extend", "insert", "remove") \
                        and isinstance(n.func.value, ast.Attribute) and isinstance(n.func.value.value, ast.Name) and n.func.value.value.id == s_:
                    out.add(n.func.value.attr)
        return out

    linit = lk.own_method("__init__")
    for a, d in zip(linit.args.kwonlyargs, linit.args.kw_defaults):
        if d is not None and isinstance(d, ast.Call):
            ci = model.resolve_class_expr(IR, d.func)
            if ci is not None:
                state = sorted(_state_of(ci))
                col.check(not state, "R16.7", f"{IR}::Linker.__init__ default {a.arg}={unparse(d)}",
                          f"the default {ci.name} object is shared by every Linker and holds no state",
                          f"the default argument `{a.arg}={unparse(d)}` is evaluated once and shared by every Linker, and {ci.name} keeps state in {state}: "
                          "a module loaded for one link (e.g. before it was recompiled) is served to later links", IR, linit)
    ctv_init = model.cls(CT, "ComputeTypeVisitor").own_method("__init__")
    ld_cls = [model.resolve_class_expr(CT, n.value.func) for n in ast.walk(ctv_init) if isinstance(n, ast.Assign) and isinstance(n.value, ast.Call) and "Loader" in unparse(n.value.func)]
    for ci in ld_cls:
        if ci is not None:
            col.check(not _state_of(ci), "R16.7", f"{CT}::ComputeTypeVisitor loader {ci.name} is stateless", "every Load reads the module file", f"{ci.name} keeps state {sorted(_state_of(ci))}", IR, ci.node)
    # ---------------- R16.6 -------------------------------------------------------
    nslc = model.file("nslc.py")
    dumps = [c for c in ast.walk(nslc.tree) if isinstance(c, ast.Call) and dotted(c.func) == "pickle.dump"]
    col.check(bool(dumps) and "IRModule" in unparse(dumps[0].args[0]), "R16.6", "nslc.py writes the IR module with pickle.dump", "pickle.dump(result.IRModule, output)", "the compiler driver does not pickle.dump the IR module", "nslc.py", nslc.tree)
    outarg = [c for c in ast.walk(nslc.tree) if isinstance(c, ast.Call) and last_attr(c) == "add_argument" and any(isinstance(a, ast.Constant) and a.value == "--output" for a in c.args)]
    col.check(bool(outarg) and "'wb'" in unparse(outarg[0]), "R16.6", "nslc.py opens the output binary", "FileType('wb')", "the output file is not opened in binary write mode", "nslc.py", nslc.tree)
    ld = model.cls(IR, "FilesystemModuleLoader").own_method("Load")
    pl = [c for c in ast.walk(ld) if isinstance(c, ast.Call) and dotted(c.func) == "pickle.load"]
    col.check(bool(pl) and all("'rb'" in unparse(c) for c in pl), "R16.6", f"{IR}::FilesystemModuleLoader.Load reads with pickle.load", "pickle.load(path.open('rb'))", "the loader does not read module files with pickle.load in binary mode", IR, ld)
    # ---------------- R16.8 the module interface has one writer --------------------------------------
    # what an importer sees of a module is Metadata[..]; it is written where the module is lowered and nowhere else
    writers = []
    for rel, fi in sorted(model.files.items()):
        if not (rel.startswith("nsl/") or rel in ("nslc.py", "nslr.py")):
            continue
        envs = {}
        for f_ in ast.walk(fi.tree):
            if isinstance(f_, ast.FunctionDef):
                e_ = _le165(f_, allow_impure=True)
                for y in ast.walk(f_):
                    envs.setdefault(id(y), e_)
        for x in ast.walk(fi.tree):
            tg = x.targets if isinstance(x, ast.Assign) else [x.target] if isinstance(x, ast.AugAssign) else []
            for t in tg:
                # through a local alias of the table as well (`md = module.Metadata; md[k] = ..`)
                base = _rs165(t.value, envs.get(id(x), {})) if isinstance(t, ast.Subscript) else None
                if isinstance(base, ast.Attribute) and base.attr == "Metadata":
                    writers.append((rel, x))
            if isinstance(x, ast.Delete):
                for t in x.targets:
                    if isinstance(t, ast.Subscript) and isinstance(t.value, ast.Attribute) and t.value.attr == "Metadata":
                        writers.append((rel, x))
            if isinstance(x, ast.Call) and isinstance(x.func, ast.Attribute) and isinstance(x.func.value, ast.Attribute) and x.func.value.attr == "Metadata" \
                    and x.func.attr in ("pop", "clear", "update", "setdefault", "popitem"):
                writers.append((rel, x))
    col.floor("R16.8", "writers of Module.Metadata", len(writers), 2)
    from . import c10 as _c10

    _c10.check_exported_unique(model, col, "R16.4")
    # imported and own functions of one name are one overload set: they are registered in one scope, imports first (= R10.3)
    from ..report import Collector as _C168

    sub168 = _C168("C10")
    _c10.run(model, sub168, "quick", share=False)
    n168 = 0
    for ob in sub168.obligations:
        if ob.rule == "R10.3" and ("v_Module" in ob.construct or "Linker." in ob.construct):
            ob.detail = "[R10.3] " + (ob.detail or "")
            ob.rule = "R16.5"
            col.obligations.append(ob)
            n168 += 1
    col.floor("R16.5", "v_Module registration obligations shared with C10", n168, 2)
    # module names are resolved against the same directory when a module is compiled and when the program is run: neither
    # front end changes the working directory (or another interpreter-wide setting)
    from .c18 import process_setters as _ps168

    for rel in ("nslc.py", "nslr.py"):
        fi_ = model.files.get(rel)
        if fi_ is None:
            raise AnchorMissing(rel)
        hits = _ps168(fi_.tree)
        col.check(not hits, "R16.8", f"{rel}:: changes no interpreter-wide setting", "no os.chdir / sys.path / os.environ write",
                  (f"`{' '.join(unparse(hits[0]).split())[:70]}`" if hits else "") + ": import names recorded at compile time are looked up relative to another directory at run time - "
                  "another (stale) file of that name is linked, or none is found", rel, hits[0] if hits else fi_.tree)
    check_tables_keep_entries(model, col, "R16.8")
    for rel, x in writers:
        col.check(rel == "nsl/passes/LowerToIR.py", "R16.8", f"{rel}:: writes Module.Metadata only while lowering", "the interface of a module (functions, types) is what lowering recorded",
                  f"`{' '.join(unparse(x).split())[:90]}` in {rel} changes the recorded interface after lowering: importers no longer see the functions / types the module defines "
                  "(calls that work in one module are rejected or mis-resolved across modules)", rel, x)
