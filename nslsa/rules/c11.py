"""C11 break and continue are accepted exactly inside loops.

Proof by structural induction over the statement tree; the checker discharges
the per-class obligations.  Claim: during ValidateFlowStatementVisitor's
traversal the context value at a node equals the number of loop statements
that properly enclose it."""
from __future__ import annotations

import ast

from ..dispatch import Dispatch, handler_traversal
from ..grammar import Grammar, PARSER
from ..model import AnalysisError, AnchorMissing, dotted, find_assign, last_attr, mangle, unparse
from ..paths import paths, calls_on_path
from ..pipeline import Pipeline, COMPILER
from .. import lowering
from .c08 import select_stmts, p_index

TITLE = "break/continue accepted exactly inside loops; bound to the innermost loop"
LEVEL = "proof"
EXHAUSTIVE = True
FLOW = "nsl/passes/ValidateFlowStatements.py"
ASTF = "nsl/ast/__init__.py"
LOWER = "nsl/passes/LowerToIR.py"
TRUSTED_BASE = [
    "CPython ast module",
    "the dispatch model of Visitor.v_Generic (nslsa/dispatch.py; its shape is re-checked on every run)",
    "ply.yacc FIRST/derivation on the extracted grammar (which symbols can contain a break/continue)",
    "the induction argument in DESIGN.md section 4 / C11",
]
EXPLANATION = (
    "R11.1 every loop class the grammar builds resolves to a handler that passes ctx+1 to the traversal of all its "
    "children; R11.2 every other node class that can contain statements resolves to default traversal with ctx unchanged "
    "and its _Traverse hands every field that can hold a break/continue to the traversal (fields resolved through "
    "constructor parameter and grammar symbol); R11.3 break/continue handlers reject exactly when ctx == 0 and the root "
    "context is 0; R11.4 the pass result is the flag, the pass is in astPasses and a failing pass yields no Result; "
    "R11.5 lowering registers break/continue with the innermost open loop (stack discipline, bracket = body)."
)
NOT_DECIDED = "nothing of substance: the property is structural"
ASSUMPTIONS = ["functions do not nest (grammar: `function` only under `module`), so 'of the same function' is automatic"]


def can_contain(G: Grammar, terminals) -> set:
    """Non-terminals that derive a string containing one of `terminals`."""
    out = set()
    changed = True
    while changed:
        changed = False
        for P in G.productions:
            if P.name in out:
                continue
            if any(s in terminals or s in out for s in P.syms):
                out.add(P.name)
                changed = True
    return out


def ctx_delta_at_traversal(model, cls, handler, nodep=None, depth=0):
    """[(what is traversed, delta added to ctx)] for AcceptVisitor / v_Visit
    calls in a handler; same-class helper calls are inlined (bound 2)."""
    if depth > 2:
        return []
    args = [a.arg for a in handler.args.args]
    if len(args) < 3:
        return []
    selfn, nodep, ctxn = args[0], args[1], args[2]
    from ..sem import local_env

    lenv = local_env(handler)
    out = []
    delta = 0
    unknown = False

    def visit_stmt(st):
        nonlocal delta, unknown
        if isinstance(st, ast.AugAssign) and isinstance(st.target, ast.Name) and st.target.id == ctxn:
            if isinstance(st.value, ast.Constant) and isinstance(st.op, (ast.Add, ast.Sub)):
                delta += st.value.value if isinstance(st.op, ast.Add) else -st.value.value
            else:
                unknown = True
            return
        if isinstance(st, ast.Assign) and any(isinstance(t, ast.Name) and t.id == ctxn for t in st.targets):
            v = st.value
            if isinstance(v, ast.BinOp) and isinstance(v.left, ast.Name) and v.left.id == ctxn and isinstance(v.right, ast.Constant) and isinstance(v.op, (ast.Add, ast.Sub)):
                delta += v.right.value if isinstance(v.op, ast.Add) else -v.right.value
            else:
                unknown = True
            return
        if isinstance(st, (ast.With,)):
            for s in st.body:
                visit_stmt(s)
            return
        if isinstance(st, (ast.If, ast.For, ast.While, ast.Try)):
            # conditional traversal: record as unknown-shaped
            for c in ast.walk(st):
                if isinstance(c, ast.Call) and last_attr(c) in ("AcceptVisitor", "v_Visit", "v_Generic"):
                    out.append((unparse(c), None, "conditional"))
            return
        for c in ast.walk(st):
            if not isinstance(c, ast.Call):
                continue
            la = last_attr(c)
            if la in ("AcceptVisitor", "v_Visit", "v_Generic"):
                carg = c.args[1] if len(c.args) > 1 else None
                if isinstance(carg, ast.Name) and carg.id != ctxn and carg.id in lenv:
                    carg = lenv[carg.id]  # e.g. loopDepth = ctx + 1
                d = None
                if carg is None:
                    d = "dropped"
                elif isinstance(carg, ast.Name) and carg.id == ctxn:
                    d = delta if not unknown else None
                elif isinstance(carg, ast.BinOp) and isinstance(carg.left, ast.Name) and carg.left.id == ctxn and isinstance(carg.right, ast.Constant):
                    d = delta + (carg.right.value if isinstance(carg.op, ast.Add) else -carg.right.value)
                what = "all children" if la == "AcceptVisitor" and isinstance(c.func.value, ast.Name) and c.func.value.id == nodep else unparse(c)
                out.append((what, d, "direct"))
            elif isinstance(c.func, ast.Attribute) and isinstance(c.func.value, ast.Name) and c.func.value.id == selfn:
                r = cls.find_method(c.func.attr) or cls.find_method(mangle(cls.name, c.func.attr))
                if r is not None and len(c.args) >= 2 and isinstance(c.args[0], ast.Name) and c.args[0].id == nodep:
                    a1 = c.args[1]
                    base = delta if isinstance(a1, ast.Name) and a1.id == ctxn else None
                    for what, d, how in ctx_delta_at_traversal(model, cls, r[1], depth=depth + 1):
                        out.append((what, None if (d is None or base is None or isinstance(d, str)) else base + d, how))

    for st in handler.body:
        visit_stmt(st)
    return out


def run(model, col, tier):
    G = Grammar(model)
    D = Dispatch(model)
    pipe = Pipeline(model)
    vis = model.cls(FLOW, "ValidateFlowStatementVisitor")
    col.check(not D.overrides_generic(vis), "R11.2", f"{FLOW}::ValidateFlowStatementVisitor uses the generic dispatch",
              "v_Generic is not overridden", "v_Generic is overridden: the dispatch model does not apply", FLOW, vis.node)
    flow_terms = {"BREAK", "CONTINUE"}
    holders = can_contain(G, flow_terms)
    col.note("non-terminals that can contain break/continue", sorted(holders))
    # ---- which AST classes does the grammar build, from which symbols -------
    loop_classes = set()
    flow_classes = {}
    built = {}
    for P in G.productions:
        stmts, pname = select_stmts(P.func, len(P.syms))
        for st in stmts:
            for c in ast.walk(st):
                if not isinstance(c, ast.Call):
                    continue
                ci = model.resolve_class_expr(PARSER, c.func)
                if ci is not None and ci.file == ASTF and D.ast_node in ci.mro:
                    built.setdefault(ci.name, []).append((P, c, pname))
                    if P.syms and P.syms[0] in ("FOR", "WHILE", "DO"):
                        loop_classes.add(ci.name)
                    if P.syms and P.syms[0] in flow_terms and len(P.syms) <= 2:
                        flow_classes[ci.name] = P.syms[0]
    col.floor("R11.1", "loop classes built by the grammar", len(loop_classes), 3)
    col.floor("R11.3", "break/continue classes built by the grammar", len(flow_classes), 2)
    col.note("loop classes", sorted(loop_classes))
    # ---- R11.1 ---------------------------------------------------------------
    for name in sorted(loop_classes):
        ci = model.cls(ASTF, name)
        kind, owner, h, base = D.resolve(vis, ci)
        key = f"{FLOW}::handler for {name}"
        if kind != "explicit":
            col.bad("R11.1", key, f"{name} resolves to default traversal: its body is visited with the loop depth unchanged, so a break/continue directly inside this loop is rejected", FLOW, vis.node)
            continue
        tr = ctx_delta_at_traversal(model, vis, h)
        full = [t for t in tr if t[0] == "all children"]
        good = len(full) >= 1 and all(t[1] == 1 for t in full) and all(t[2] == "direct" for t in tr)
        col.check(good, "R11.1", key, f"{owner.name}.{h.name}: all children are traversed with ctx + 1",
                  f"{owner.name}.{h.name}: children are traversed as {tr}; expected one traversal of all children with ctx + 1", FLOW, h)
    # ---- R11.2 ---------------------------------------------------------------
    for ci in D.ast_classes():
        if ci.name in loop_classes or ci.name in flow_classes:
            continue
        kind, owner, h, base = D.resolve(vis, ci)
        if kind == "explicit":
            tr = ctx_delta_at_traversal(model, vis, h)
            full = [t for t in tr if t[0] == "all children"]
            good = len(full) >= 1 and all(t[1] == 0 for t in full)
            col.check(good, "R11.2", f"{FLOW}::handler for {ci.name}", "explicit handler traverses all children with ctx unchanged",
                      f"{owner.name}.{h.name} handles {ci.name} and traverses {tr}: loop depth is not passed on unchanged to all children", FLOW, h)
        else:
            col.check(D.default_traverses(vis), "R11.2", f"{FLOW}::default traversal for {ci.name}",
                      "default handler traverses the children with ctx unchanged", "the visitor's v_Default does not traverse children", FLOW, vis.node)
    dv = D.default_visitor.own_method("v_Default")
    acc = [c for c in ast.walk(dv) if isinstance(c, ast.Call) and last_attr(c) == "AcceptVisitor"]
    col.check(bool(acc) and len(acc[0].args) == 2 and unparse(acc[0].args[1]) == dv.args.args[2].arg, "R11.2",
              "nsl/Visitor.py::DefaultVisitor.v_Default passes ctx on", "obj.AcceptVisitor(self, ctx)", "the default traversal does not pass its ctx to the children", "nsl/Visitor.py", dv)
    av = D.node_base.own_method("AcceptVisitor")
    okav = "v_Generic" in unparse(av) and "ForEachChild" in unparse(av)
    col.check(okav, "R11.2", "nsl/Visitor.py::Node.AcceptVisitor", "visits every child handed out by _Traverse through v_Generic with the same ctx", None, "nsl/Visitor.py", av)
    # fields that can hold a break/continue must be traversed
    nfields = 0
    for cname, sites in sorted(built.items()):
        ci = model.cls(ASTF, cname)
        init = ci.find_method("__init__")
        if init is None:
            continue
        params = [a.arg for a in init[1].args.args[1:]]
        pfield = {}
        for n in ast.walk(init[1]):
            if isinstance(n, ast.Assign) and isinstance(n.value, ast.Name) and n.value.id in params and isinstance(n.targets[0], ast.Attribute):
                pfield[n.value.id] = mangle(init[0].name, n.targets[0].attr)
        trav = {f for f, g in D.traversed_fields(ci)}
        for P, c, pname in sites:
            for prm, a in list(zip(params, c.args)) + [(k.arg, k.value) for k in c.keywords if k.arg]:
                i = p_index(a, pname)
                if i is None:
                    # p[1]["..."] style (function_decl dict) is not a statement holder
                    continue
                sym = P.syms[i - 1]
                if sym in holders:
                    nfields += 1
                    fld = pfield.get(prm)
                    col.check(fld in trav, "R11.2", f"{ASTF}::{cname}._Traverse covers {prm}",
                              f"field {fld} (grammar symbol `{sym}` of `{P}`) is handed to the traversal",
                              f"{cname}.{prm} holds `{sym}` of `{P}`, which can contain break/continue, but _Traverse does not hand field {fld} to the traversal: statements below it are invisible to the validator", ASTF, ci.node)
    # statements collected through Add* calls / list appends on the module / compound level
    mod = model.cls(ASTF, "Module")
    mtrav = {f for f, g in D.traversed_fields(mod)}
    for P in G.productions:
        stmts, pname = select_stmts(P.func, len(P.syms))
        for st in stmts:
            for c in ast.walk(st):
                if isinstance(c, ast.Call) and isinstance(c.func, ast.Attribute) and c.func.attr.startswith("Add") and c.args:
                    i = p_index(c.args[0], pname)
                    if i is not None and P.syms[i - 1] in holders:
                        m = mod.find_method(c.func.attr)
                        if m is None:
                            continue
                        flds = {mangle(mod.name, n.func.value.attr) for n in ast.walk(m[1]) if isinstance(n, ast.Call) and last_attr(n) in ("append", "add")
                                and isinstance(n.func.value, ast.Attribute)}
                        nfields += 1
                        col.check(bool(flds) and flds <= mtrav, "R11.2", f"{ASTF}::Module._Traverse covers {c.func.attr}",
                                  f"{c.func.attr} stores into {sorted(flds)}, which _Traverse hands out",
                                  f"{c.func.attr} stores `{P.syms[i-1]}` into {sorted(flds)}, not traversed by Module._Traverse", ASTF, mod.node)
    col.floor("R11.2", "statement-holding fields", nfields, 9)
    # ---- R11.3 ---------------------------------------------------------------
    gc = vis.find_method("GetContext")
    rets = [r.value for r in ast.walk(gc[1]) if isinstance(r, ast.Return)] if gc and gc[0] is vis else []
    col.check(len(rets) == 1 and isinstance(rets[0], ast.Constant) and rets[0].value == 0 and rets[0].value is not False, "R11.3",
              f"{FLOW}::GetContext", "the root context (loop depth) is 0", f"the root context is {[unparse(r) for r in rets]}", FLOW, vis.node)
    err = {"BREAK": "BREAK", "CONTINUE": "CONTINUE"}
    for cname, term in sorted(flow_classes.items()):
        ci = model.cls(ASTF, cname)
        kind, owner, h, base = D.resolve(vis, ci)
        key = f"{FLOW}::handler for {cname}"
        if kind != "explicit":
            col.bad("R11.3", key, f"{cname} has no handler: a misplaced {term.lower()} is never rejected", FLOW, vis.node)
            continue
        ctxn = h.args.args[2].arg
        rejecting, accepting = [], []
        # a shared private helper (`self.__RequireEnclosingLoop(ctx, <error>)`) is read in place
        from ..sem import expand_helpers as _xh113

        h = _xh113(model, vis, h)
        for evs, status in paths(h.body):
            conds = [(" ".join(unparse(e.node).split()), e.val) for e in evs if e.kind == "cond"]
            clears = any(e.kind == "stmt" and isinstance(e.node, ast.Assign) and isinstance(e.node.targets[0], ast.Attribute)
                         and e.node.targets[0].attr == "valid" and isinstance(e.node.value, ast.Constant) and e.node.value.value is False for e in evs)
            (rejecting if status == "raise" or clears else accepting).append((conds, status, clears))
        zero_forms = {f"{ctxn} == 0", f"{ctxn} <= 0", f"{ctxn} < 1", f"0 == {ctxn}", f"not {ctxn}", f"0 >= {ctxn}"}

        def is_zero_path(conds):
            return len(conds) == 1 and ((conds[0][0] in zero_forms and conds[0][1]) or (conds[0][0] in {f"{ctxn} > 0", f"{ctxn} >= 1", f"{ctxn} != 0", ctxn} and not conds[0][1]))

        good = (len(rejecting) == 1 and is_zero_path(rejecting[0][0]) and rejecting[0][1] == "raise" and rejecting[0][2]
                and all(not c[2] and c[1] != "raise" for c in accepting) and len(accepting) >= 1)
        col.check(good, "R11.3", key, f"{h.name}: exactly when ctx == 0 the flag is cleared and the error is raised",
                  f"{h.name}: rejecting paths {[(c, s, 'clears flag' if f else 'keeps flag') for c, s, f in rejecting]}, accepting paths {[c for c, s, f in accepting]}; "
                  "expected: under ctx == 0 clear `valid` and raise, otherwise nothing", FLOW, h)
        raised = [unparse(c.func) for c in ast.walk(h) if isinstance(c, ast.Call) and last_attr(c) == "Raise"]
        col.check(any(term in r for r in raised), "R11.3", key + " error", f"raises the {term.lower()} diagnostic ({raised})", f"raises {raised}", FLOW, h)
    # ---- R11.4 ---------------------------------------------------------------
    pipe.check_validator(col, "R11.4", "ValidateFlowStatements")
    pipe.makepass_process(col, "R11.4")
    pipe.check_gating(col, "R11.4")
    pipe.check_pass_freshness(col, "R11.4", ["ValidateFlowStatements"])
    # ---- R11.6 every statement / function that was written reaches the validator -----------------
    # (a statement dropped by a list production, or a function replaced in the module's list, is never visited: a misplaced
    # break / continue inside it is accepted)
    from .c08 import check_list_accumulation
    from ..sem import local_env as _le116, resolve as _rs116

    check_list_accumulation(model, col, "R11.6", G)
    mod_cls = model.cls(ASTF, "Module")
    nadd = 0
    for mname, m in sorted(mod_cls.methods.items()):
        if not mname.startswith("Add") or len(m.args.args) != 2:
            continue
        nadd += 1
        par = m.args.args[1].arg
        lost = None
        for evs, status in paths(m.body):
            if status == "raise":
                continue
            stored = any(last_attr(c) in ("append", "add") and c.args and unparse(c.args[0]).strip("()") == par for c in calls_on_path(evs)) or \
                any(e.kind == "stmt" and isinstance(e.node, ast.Assign) and isinstance(e.node.targets[0], ast.Subscript) and unparse(e.node.value) == par and
                    # entered under a key derived from the item itself (its name), not at a position found by a search
                    any(isinstance(x, ast.Name) and x.id == par for x in ast.walk(_rs116(e.node.targets[0].slice, _le116(m, allow_impure=True)))) for e in evs)
            if not stored:
                lost = [(" ".join(unparse(e.node).split())[:50], e.val) for e in evs if e.kind == "cond"]
        col.check(lost is None, "R11.6", f"{ASTF}::Module.{mname} adds what it is given", "the item is appended / entered under its own name on every returning path",
                  f"under {lost} Module.{mname} does not add the item (or overwrites an existing entry by position): a definition disappears from the module and is never validated", ASTF, m)
    col.floor("R11.6", "Module.Add* methods", nadd, 3)
    # ---- R11.5 ---------------------------------------------------------------
    from ..report import Collector

    sub = Collector("C11")
    lowering.run_templates(model, sub, G, "R11.5")
    keep = ("loop bracket", "v_BreakStatement", "v_ContinueStatement", "Context.", "_BreakContinueStatements", "] break", "] continue")
    for ob in sub.obligations:
        if any(k in ob.construct for k in keep):
            col.obligations.append(ob)
    ctx = model.cls(LOWER, "LowerToIRVisitor.Context")
    uses = []
    for m in ctx.methods.values():
        for n in ast.walk(m):
            if isinstance(n, ast.Attribute) and n.attr == "__loops" and isinstance(n.ctx, ast.Load):
                uses.append((m.name, n))
    # every use of __loops is append / pop / [-1]
    bad_use = []
    for m in ctx.methods.values():
        for n in ast.walk(m):
            if isinstance(n, ast.Call) and isinstance(n.func, ast.Attribute) and isinstance(n.func.value, ast.Attribute) and n.func.value.attr == "__loops":
                if n.func.attr not in ("append", "pop") or (n.func.attr == "pop" and n.args):
                    bad_use.append(unparse(n))
            if isinstance(n, ast.Subscript) and isinstance(n.value, ast.Attribute) and n.value.attr == "__loops":
                if unparse(n.slice) != "-1":
                    bad_use.append(unparse(n))
    col.check(not bad_use and len(uses) >= 4, "R11.5", f"{LOWER}::Context.__loops stack discipline",
              "the open-loop records are used as a stack (append / pop() / [-1])", f"non-stack use of the loop records: {bad_use}", LOWER, ctx.node)
